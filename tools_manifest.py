#!/usr/bin/env python3
"""Regenerates MANIFEST.json from the table below (kept as a script so that the manifest stays consistent)."""
import json, os
ROOT = os.path.dirname(os.path.abspath(__file__))

LEVEL_TEXT = ('Bounded symbolic checking of the real code: generated extern "C" wrappers over the public AVEL API are lowered by clang++-14 -O1 to LLVM IR under each '
              'feature-macro configuration; an own symbolic interpreter executes that IR over z3 terms (bit-vectors, IEEE floats, byte memory, per-lane poison); the property is an '
              'SMT assertion against an oracle written from the statement; z3 / cvc5 (--solve-bv-as-int) / kissat return unsat for ALL operand values of the encoded wrapper '
              '(no value bound; loops unrolled to their own trip count) or a model that is replayed natively (clang++ and g++) before it is reported. ')
NOTE = ('Trusted: clang-14 front end and -O1 pipeline (the IR is what is encoded; GCC builds are covered only by native replay of counterexamples), the intrinsic models in '
        'avelverif/intrin.py (validated against this CPU), z3/cvc5/kissat, the oracles in avelverif/ops.py. Outside the claim: NEON/SVE/AVX10/MSVC/ICPX arms, -ffast-math, '
        '-frounding-math, FTZ/DAZ on; undecided and not-encodable obligations are listed in the evidence and never counted as success.')

CLAIMED = {
    'C01': ('integer + - * neg ++ -- on every integer vector type and configuration', '§7 C01'),
    'C02': ('comparisons -> exact mask, integers and floats incl. NaN/signed zeros', '§7 C02'),
    'C03': ('mask algebra, reductions, insert/extract, conversions vector<->mask, representation invariant preserved by every operation', '§7 C03'),
    'C04': ('bitwise ops, shifts with amounts 0..bits (scalar, per-lane, template), rotations by any amount', '§7 C04'),
    'C06': ('bit-counting functions, vector and scalar overloads, every element value incl. 64-bit', '§7 C06'),
    'C07': ('blend/keep/clear/min/max/clamp/abs/negate/average/midpoint/copysign', '§7 C07'),
    'C08': ('loads, stores, gathers, scatters, array round trips, lane insert/extract: values moved, final memory, and no fault on valid input (footprint obligations shared with C09)', '§7 C08'),
    'C09': ('memory footprint of loads/stores/gathers/scatters from the executor access log, fault model per instruction', '§7 C09'),
    'C10': ('float + - * / sqrt and unary minus, all bit patterns x 4 rounding modes', '§7 C10'),
    'C11': ('ceil/floor/trunc/round/nearbyint/rint in every rounding mode; MXCSR control bits unchanged by every encoded function', '§7 C11'),
    'C12': ('frexp/ldexp/scalbn/ilogb/logb/frac/fmax/fmin/fdim under round-to-nearest; ldexp/scalbn of 64-bit lanes by an exhaustive nine-way case split', '§7 C12, §12.6'),
    'C13': ('fpclassify/isnan/isinf/isfinite/isnormal/signbit and the quiet comparisons', '§7 C13'),
}
CLAIMED.update({
    'C05': ('div / % on every integer vector type: 8-bit lanes and code that really divides against bvudiv/bvsdiv (UF congruence); 32/64-bit long-division '
            'emulations against the textbook restoring division REF (proof by generalisation at the early exits); the cvtt(fdiv(cvt,cvt)) routes (16-bit via float, '
            '32-bit via double) through the stated exact-quotient lemma (DESIGN.md 12.6) with the x86 conversion range behaviour kept exact; whatever the solvers do not finish '
            'is reported undecided; no scalar division by a possibly-zero lane is executed', '§7 C05, §12.6'),
    'C14': ('scalar Denominator<T>: numerator fully symbolic; divisor symbolic for 8-bit types, enumerated lattice otherwise; signed 32/64-bit full-range queries are '
            'beyond every back end and are decided for all numerators within 2^12 of 0, MIN, MAX (stated bound); the 128/64 division behind Denominator<int64_t> is '
            'hunted per divisor bit length with symbolic d (bug hunting only, never counted as discharged)', '§7 C14, §12.7'),
    'C15': ('vector Denominators incl. the broadcast constructor, different lattice divisors per lane', '§7 C15'),
    'C16': ('every scalar overload (and the mixed-sign cmp_*) against the same oracle the vector lanes are decided against, under every scalar instruction-set selection', '§7 C16'),
    'C17': ('convert<>, converting constructors, mask conversions and bit_cast for every pair found in the headers', '§7 C17'),
    'C18': ('Aligned_allocator, directly and rebound through std::allocator_traits: one symbolic allocate/havoc/deallocate step per (T, A, implementation) with libc as contract-level stubs; a null allocate() result (acceptable only for a zero-size request) is followed into deallocate and any access through it is an obligation', '§7 C18'),
    'C20': ('prefetch_read/prefetch_write (untyped and element sizes 4, 64, 65, 200): arbitrary pointer, byte count up to 4 pages + 1 line, no access other than PREFETCH, '
            'every path leaves the loop within the unwinding bound (a failure is replayed natively under a watchdog)', '§7 C20'),
})
PENDING = {}
C19_TEXT = ('PARTIAL claim, decided by SAT over a symbolic model of the preprocessor conditionals (Capabilities/Detect/Verify/Sizes/Vectors include blocks) for all 2^22 '
            'subsets of feature macros: one macro implies what documentation and compiler both imply; no Verify static_assert reachable with matching flags; '
            'AVEL_AUTO_DETECT gives the same vector headers as naming the enabled macros; headers exist exactly under their documented macro; natural/max width '
            'aliases name provided types. The clauses "every configuration compiles" and "trivially copyable / sizeof" have no input space for a solver and are NOT claimed '
            '(DESIGN.md section 10). "Every operation declared, defined and linkable for every width" is covered only by an AUXILIARY stage that is not a solver result: a compile/link '
            'enumeration of every generated wrapper (all properties, all template constants) per SIMD configuration, reported separately in the evidence.')

def main():
    checks = []
    for pid in sorted(CLAIMED):
        what, ref = CLAIMED[pid]
        checks.append({
            'property_id': pid,
            'quick_cmd': 'bin/avelcheck --property %s --tier quick' % pid,
            'thorough_cmd': 'bin/avelcheck --property %s --tier thorough' % pid,
            'evidence_file': 'evidence/%s.json' % pid,
            'replay_cmd_template': 'sh {path}',
            'engine': 'avelverif',
            'level_claimed': {'category': 'model_checking', 'text': LEVEL_TEXT + 'Scope here: ' + what + '.', 'design_ref': ref},
            'level_note': NOTE,
            'technique': 'solver-based bounded symbolic checking of clang LLVM IR (own IR->SMT executor; z3 + cvc5 int-blast + kissat), native replay of counterexamples',
        })
    checks.append({
        'property_id': 'C19',
        'quick_cmd': 'bin/avelcheck --property C19 --tier quick',
        'thorough_cmd': 'bin/avelcheck --property C19 --tier thorough',
        'evidence_file': 'evidence/C19.json',
        'replay_cmd_template': 'sh {path}',
        'engine': 'avelverif',
        'level_claimed': {'category': 'other', 'text': C19_TEXT, 'design_ref': '§7 C19, §10'},
        'level_note': 'Trusted: the preprocessor-conditional extractor in avelverif/macrologic.py, clang++-14 predefines as the compiler model (additivity spot-checked each run), z3.',
        'technique': 'SAT/SMT over a symbolic model of the preprocessor conditionals (all macro subsets); native confirmation by compiling a translation unit; plus an auxiliary (non-solver) compile/link enumeration for API parity across widths',
    })
    checks.sort(key=lambda c: c['property_id'])
    m = {
        'version': 1,
        'setup_cmd': 'python3-vt -m compileall -q avelverif && python3-vt -m avelverif.selftest',
        'hooks': {'guard': 'AVEL_VERIF', 'enable': 'no hooks are needed: wrappers use the public API only (nothing in /repo is guarded by AVEL_VERIF)',
                  'baseline_off_cmd': '/verif/tools/baseline.sh',
                  'source_commits': [], 'add_only': True},
        'engines': [{'name': 'avelverif', 'path': 'avelverif/', 'serves_properties': sorted(list(CLAIMED) + ['C19']),
                     'kind_free_text': 'LLVM-IR symbolic executor over z3 terms with x86 intrinsic models, oracle library, solver portfolio, native replay'}],
        'checks': checks,
        'notes': 'Every check recompiles its wrappers from /repo/include on each run. Known findings: known_findings.json. See DESIGN.md.',
        'not_applicable': [{'property_id': k, 'reason': v} for k, v in sorted(PENDING.items())],
    }
    json.dump(m, open(os.path.join(ROOT, 'MANIFEST.json'), 'w'), indent=1)

if __name__ == '__main__':
    main()
