#!/usr/bin/env python3
"""Regenerates MANIFEST.json from the table below (kept as a script so that the manifest stays consistent)."""
import json, os
ROOT = os.path.dirname(os.path.abspath(__file__))

LEVEL_TEXT = ('Bounded symbolic checking of the real code: generated extern "C" wrappers over the public AVEL API are lowered by clang++-14 -O1 to LLVM IR under each '
              'feature-macro configuration; an own symbolic interpreter executes that IR over z3 terms (bit-vectors, IEEE floats, byte memory, per-lane poison); the property is an '
              'SMT assertion against an oracle written from the statement; z3 / cvc5 (--solve-bv-as-int) / kissat return unsat for ALL operand values of the encoded wrapper '
              '(no value bound; loops unrolled to their own trip count) or a model that is replayed natively (clang++ and g++) before it is reported. ')
NOTE = ('Trusted: clang-14 front end and -O1 pipeline (the IR is what is encoded; GCC builds are covered only by native replay of counterexamples), the intrinsic models in '
        'avelverif/intrin.py (validated against this CPU), z3/cvc5/kissat, the oracles in avelverif/ops.py. Outside the claim: NEON/SVE/AVX10/MSVC/ICPX arms, -ffast-math, '
        '-frounding-math, FTZ/DAZ on; undecided and not-encodable obligations are listed in the evidence and never counted as success.')

CLAIMED = {
    'C01': ('integer + - * neg ++ -- on every integer vector type and configuration', '§7 C01'),
    'C02': ('comparisons -> exact mask, integers and floats incl. NaN/signed zeros', '§7 C02'),
    'C03': ('mask algebra, reductions, insert/extract, conversions vector<->mask, representation invariant preserved by every operation', '§7 C03'),
    'C04': ('bitwise ops, shifts with amounts 0..bits (scalar, per-lane, template), rotations by any amount', '§7 C04'),
    'C06': ('bit-counting functions, vector and scalar overloads, every element value incl. 64-bit', '§7 C06'),
    'C07': ('blend/keep/clear/min/max/clamp/abs/negate/average/midpoint/copysign', '§7 C07'),
    'C08': ('loads, stores, gathers, scatters, array round trips, lane insert/extract: values moved and final memory', '§7 C08'),
    'C09': ('memory footprint of loads/stores/gathers/scatters from the executor access log, fault model per instruction', '§7 C09'),
    'C10': ('float + - * / sqrt and unary minus, all bit patterns x 4 rounding modes', '§7 C10'),
    'C11': ('ceil/floor/trunc/round/nearbyint/rint in every rounding mode; MXCSR control bits unchanged by every encoded function', '§7 C11'),
    'C12': ('frexp/ldexp/scalbn/ilogb/logb/frac/fmax/fmin/fdim', '§7 C12'),
    'C13': ('fpclassify/isnan/isinf/isfinite/isnormal/signbit and the quiet comparisons', '§7 C13'),
}
PENDING = {
    'C05': 'check not registered yet in this commit (integer division harness being budgeted)',
    'C14': 'check not registered yet in this commit (scalar Denominator harness in progress)',
    'C15': 'check not registered yet in this commit (vector Denominator harness in progress)',
    'C16': 'check not registered yet in this commit (scalar/lane equivalence harness in progress)',
    'C17': 'check not registered yet in this commit (conversion harness in progress)',
    'C18': 'check not registered yet in this commit (allocator harness in progress)',
    'C19': 'check not registered yet in this commit; only the macro-logic clauses are decidable by a solver (see DESIGN.md §10)',
    'C20': 'check not registered yet in this commit (prefetch harness in progress)',
}

def main():
    checks = []
    for pid in sorted(CLAIMED):
        what, ref = CLAIMED[pid]
        checks.append({
            'property_id': pid,
            'quick_cmd': 'bin/avelcheck --property %s --tier quick' % pid,
            'thorough_cmd': 'bin/avelcheck --property %s --tier thorough' % pid,
            'evidence_file': 'evidence/%s.json' % pid,
            'replay_cmd_template': 'bin/avelcheck --replay {path}',
            'engine': 'avelverif',
            'level_claimed': {'category': 'model_checking', 'text': LEVEL_TEXT + 'Scope here: ' + what + '.', 'design_ref': ref},
            'level_note': NOTE,
            'technique': 'solver-based bounded symbolic checking of clang LLVM IR (own IR->SMT executor; z3 + cvc5 int-blast + kissat), native replay of counterexamples',
        })
    m = {
        'version': 1,
        'setup_cmd': 'python3-vt -m compileall -q avelverif && python3-vt -m avelverif.selftest',
        'hooks': {'guard': 'AVEL_VERIF', 'enable': 'no hooks are needed: wrappers use the public API only (nothing in /repo is guarded by AVEL_VERIF)',
                  'baseline_off_cmd': 'cd /repo && cmake -G Ninja -B _build >/dev/null && cmake --build _build >/dev/null && ctest --test-dir _build -j8 --timeout 900',
                  'source_commits': [], 'add_only': True},
        'engines': [{'name': 'avelverif', 'path': 'avelverif/', 'serves_properties': sorted(CLAIMED),
                     'kind_free_text': 'LLVM-IR symbolic executor over z3 terms with x86 intrinsic models, oracle library, solver portfolio, native replay'}],
        'checks': checks,
        'notes': 'Every check recompiles its wrappers from /repo/include on each run. Known findings: known_findings.json. See DESIGN.md.',
        'not_applicable': [{'property_id': k, 'reason': v} for k, v in sorted(PENDING.items())],
    }
    json.dump(m, open(os.path.join(ROOT, 'MANIFEST.json'), 'w'), indent=1)

if __name__ == '__main__':
    main()
