"""Parser for the subset of textual LLVM-14 IR that clang++-14 -O1 emits for the AVEL wrappers.

Produces Module -> Function -> Block -> Inst objects with fully parsed operands, so that the
symbolic executor never touches text.  Anything the parser does not understand raises
ParseError naming the construct; the caller reports the wrapper as not-encodable.
"""
import re
import struct


class ParseError(Exception):
    pass


# ----------------------------------------------------------------------------- types
class Ty:
    __slots__ = ('kind', 'bits', 'n', 'elem', 'fields', 'packed', 'name')

    def __init__(self, kind, bits=0, n=0, elem=None, fields=None, packed=False, name=None):
        self.kind = kind      # int fp vec ptr void arr struct label metadata func
        self.bits = bits
        self.n = n
        self.elem = elem
        self.fields = fields
        self.packed = packed
        self.name = name

    def __repr__(self):
        k = self.kind
        if k == 'int':
            return 'i%d' % self.bits
        if k == 'fp':
            return {16: 'half', 32: 'float', 64: 'double', 80: 'x86_fp80'}[self.bits]
        if k == 'vec':
            return '<%d x %r>' % (self.n, self.elem)
        if k == 'arr':
            return '[%d x %r]' % (self.n, self.elem)
        if k == 'ptr':
            return '%r*' % (self.elem,)
        if k == 'struct':
            return '{%s}' % ', '.join(repr(f) for f in self.fields)
        return k

    # number of scalar lanes of a first-class register value
    def lanes(self):
        return self.n if self.kind == 'vec' else 1

    def scal(self):
        return self.elem if self.kind == 'vec' else self

    def lbits(self):
        t = self.scal()
        return 64 if t.kind == 'ptr' else t.bits

    def is_fp(self):
        return self.scal().kind == 'fp'


I1 = Ty('int', 1)
I8 = Ty('int', 8)
I32 = Ty('int', 32)
I64 = Ty('int', 64)
VOID = Ty('void')


def store_size(ty):
    """size in bytes as laid out in memory (x86-64 data layout)"""
    k = ty.kind
    if k == 'int':
        return (ty.bits + 7) // 8
    if k == 'fp':
        return {16: 2, 32: 4, 64: 8, 80: 16}[ty.bits]
    if k == 'ptr':
        return 8
    if k == 'vec':
        return (ty.n * ty.lbits() + 7) // 8
    if k == 'arr':
        return ty.n * alloc_size(ty.elem)
    if k == 'struct':
        return struct_layout(ty)[1]
    raise ParseError('size of %r' % ty)


def abi_align(ty):
    k = ty.kind
    if k == 'int':
        b = store_size(ty)
        a = 1
        while a < b and a < 8:
            a *= 2
        return a
    if k == 'fp':
        return {16: 2, 32: 4, 64: 8, 80: 16}[ty.bits]
    if k == 'ptr':
        return 8
    if k == 'vec':
        s = store_size(ty)
        a = 1
        while a < s:
            a *= 2
        return a
    if k == 'arr':
        return abi_align(ty.elem)
    if k == 'struct':
        if ty.packed:
            return 1
        return max([abi_align(f) for f in ty.fields] or [1])
    raise ParseError('align of %r' % ty)


def alloc_size(ty):
    s = store_size(ty)
    a = abi_align(ty)
    return (s + a - 1) // a * a


def struct_layout(ty):
    """-> (list of field offsets, total size)"""
    off = 0
    offs = []
    for f in ty.fields:
        if not ty.packed:
            a = abi_align(f)
            off = (off + a - 1) // a * a
        offs.append(off)
        off += alloc_size(f)
    if not ty.packed:
        a = abi_align(ty)
        off = (off + a - 1) // a * a
    return offs, off


# ----------------------------------------------------------------------------- tokens
TOK = re.compile(r'''\s*(
    c"(?:[^"\\]|\\[0-9A-Fa-f]{2}|\\\\)*"      |   # c"..." string constant
    "(?:[^"\\]|\\.)*"                          |   # quoted string
    [%@]"(?:[^"\\]|\\.)*"                      |   # quoted identifiers
    [%@][-A-Za-z0-9_.$]+                       |   # identifiers
    ![A-Za-z0-9_.]+ | !\{ | !                  |   # metadata
    \#\d+                                      |   # attribute group ref
    0x[KLMHR]?[0-9A-Fa-f]+                     |   # hex float / int
    -?\d+\.\d*(?:e[+-]?\d+)?                   |   # decimal float
    -?\d+                                      |   # int
    [A-Za-z_][A-Za-z0-9_.]*                    |   # words
    \.\.\. | <\{ | \}> | [<>()\[\]{},=*:]          # punctuation
)''', re.X)


def tokenize(s):
    out = []
    i = 0
    n = len(s)
    while i < n:
        m = TOK.match(s, i)
        if not m:
            if s[i:].strip() == '':
                break
            raise ParseError('cannot tokenize %r' % s[i:i + 40])
        out.append(m.group(1))
        i = m.end()
    return out


ARG_ATTRS = {'noundef', 'nocapture', 'readonly', 'readnone', 'writeonly', 'nonnull', 'immarg', 'zeroext',
             'signext', 'noalias', 'nofree', 'returned', 'inreg', 'nest', 'swiftself', 'noreturn',
             'nonlazybind', 'writable', 'dead_on_unwind', 'allocalign', 'allocptr'}
ARG_ATTRS_PAREN = {'sret', 'byval', 'byref', 'dereferenceable', 'dereferenceable_or_null', 'align',
                   'elementtype', 'inalloca', 'preallocated'}
LINKAGE = {'dso_local', 'linkonce_odr', 'internal', 'hidden', 'weak_odr', 'weak', 'private', 'external',
           'available_externally', 'linkonce', 'common', 'appending', 'protected', 'default', 'dso_preemptable',
           'local_unnamed_addr', 'unnamed_addr', 'fastcc', 'ccc', 'coldcc', 'thread_local', 'dllimport', 'dllexport'}
FMF = {'fast', 'nnan', 'ninf', 'nsz', 'arcp', 'contract', 'afn', 'reassoc'}
CASTS = {'zext', 'sext', 'trunc', 'bitcast', 'fpext', 'fptrunc', 'sitofp', 'uitofp', 'fptosi', 'fptoui',
         'ptrtoint', 'inttoptr', 'addrspacecast'}
BINOPS = {'add', 'sub', 'mul', 'and', 'or', 'xor', 'shl', 'lshr', 'ashr', 'udiv', 'urem', 'sdiv', 'srem',
          'fadd', 'fsub', 'fmul', 'fdiv', 'frem'}


class Inst:
    __slots__ = ('op', 'dst', 'ty', 'ops', 'flags', 'x', 'text')

    def __init__(self, op, dst=None, ty=None, ops=(), flags=(), x=None, text=''):
        self.op = op
        self.dst = dst
        self.ty = ty
        self.ops = ops
        self.flags = flags
        self.x = x
        self.text = text

    def __repr__(self):
        return self.text


class Function:
    def __init__(self, name):
        self.name = name
        self.ret = None
        self.args = []       # (name, Ty, attrs dict)
        self.blocks = {}     # label -> [Inst]
        self.order = []
        self.text = []       # raw body lines (for hashing / evidence)
        self.ret_attrs = {}


class Global:
    def __init__(self, name, ty, init, const, align):
        self.name = name
        self.ty = ty
        self.init = init     # operand or None (external)
        self.const = const
        self.align = align


class Module:
    def __init__(self):
        self.fns = {}
        self.decls = {}
        self.globals = {}
        self.named = {}      # named struct types


class P:
    """token cursor"""

    def __init__(self, mod, toks, line=''):
        self.m = mod
        self.t = toks
        self.i = 0
        self.line = line

    def peek(self, k=0):
        j = self.i + k
        return self.t[j] if j < len(self.t) else None

    def next(self):
        v = self.t[self.i]
        self.i += 1
        return v

    def expect(self, s):
        v = self.next()
        if v != s:
            raise ParseError('expected %r got %r in %s' % (s, v, self.line))

    def accept(self, s):
        if self.peek() == s:
            self.i += 1
            return True
        return False

    def done(self):
        return self.i >= len(self.t)

    # ------------------------------------------------------------- types
    def type(self):
        t = self.next()
        if t == '<':
            n = int(self.next())
            self.expect('x')
            e = self.type()
            self.expect('>')
            ty = Ty('vec', n=n, elem=e)
        elif t == '[':
            n = int(self.next())
            self.expect('x')
            e = self.type()
            self.expect(']')
            ty = Ty('arr', n=n, elem=e)
        elif t == '{' or t == '<{':
            fields = []
            close = '}' if t == '{' else '}>'
            if self.peek() != close:
                while True:
                    fields.append(self.type())
                    if not self.accept(','):
                        break
            self.expect(close)
            ty = Ty('struct', fields=fields, packed=(t == '<{'))
        elif re.fullmatch(r'i\d+', t):
            ty = Ty('int', int(t[1:]))
        elif t == 'float':
            ty = Ty('fp', 32)
        elif t == 'double':
            ty = Ty('fp', 64)
        elif t == 'half':
            ty = Ty('fp', 16)
        elif t == 'x86_fp80':
            ty = Ty('fp', 80)
        elif t == 'void':
            ty = VOID
        elif t == 'label':
            ty = Ty('label')
        elif t == 'metadata':
            ty = Ty('metadata')
        elif t == 'opaque':
            ty = Ty('struct', fields=[], name='opaque')
        elif t[0] == '%':
            nm = t[1:].strip('"')
            if nm not in self.m.named:
                # forward reference: placeholder resolved lazily
                self.m.named[nm] = Ty('struct', fields=[], name=nm)
            ty = self.m.named[nm]
        else:
            raise ParseError('type? %r in %s' % (t, self.line))
        while True:
            if self.accept('*'):
                ty = Ty('ptr', elem=ty)
            elif self.peek() == '(' and ty.kind != 'label':
                # function type: R (A, B, ...)
                self.next()
                params = []
                if self.peek() != ')':
                    while True:
                        if self.accept('...'):
                            params.append('...')
                        else:
                            params.append(self.type())
                        if not self.accept(','):
                            break
                self.expect(')')
                ty = Ty('func', elem=ty, fields=params)
            elif self.peek() == 'addrspace':
                self.next(); self.expect('('); self.next(); self.expect(')')
            else:
                break
        return ty

    # ------------------------------------------------------------- operands
    def skip_attrs(self):
        attrs = {}
        while True:
            t = self.peek()
            if t in ARG_ATTRS:
                attrs[t] = True
                self.next()
            elif t in ARG_ATTRS_PAREN:
                self.next()
                if self.peek() == '(':
                    self.next()
                    depth = 1
                    buf = []
                    while depth:
                        x = self.next()
                        if x == '(':
                            depth += 1
                        elif x == ')':
                            depth -= 1
                            if depth == 0:
                                break
                        buf.append(x)
                    attrs[t] = buf
                else:
                    # align N
                    attrs[t] = [self.next()]
            else:
                break
        return attrs

    def value(self, ty):
        """operand of known type"""
        t = self.next()
        c = t[0]
        if c == '%':
            return ('r', t[1:].strip('"') if t[1] == '"' else t[1:])
        if c == '@':
            return ('g', t[1:].strip('"') if t[1] == '"' else t[1:])
        if t == 'zeroinitializer':
            return ('zero',)
        if t == 'undef':
            return ('undef',)
        if t == 'poison':
            return ('poison',)
        if t == 'null':
            return ('null',)
        if t == 'true':
            return ('ci', 1)
        if t == 'false':
            return ('ci', 0)
        if t == 'none':
            return ('undef',)
        k = ty.kind
        if t == '<' or t == '[' or t == '{' or t == '<{':
            close = {'<': '>', '[': ']', '{': '}', '<{': '}>'}[t]
            elems = []
            if self.peek() != close:
                while True:
                    ety = self.type()
                    elems.append((ety, self.value(ety)))
                    if not self.accept(','):
                        break
            self.expect(close)
            return ('agg', elems)
        if t.startswith('c"'):
            raw = t[2:-1]
            bs = []
            j = 0
            while j < len(raw):
                if raw[j] == '\\':
                    if raw[j + 1] == '\\':
                        bs.append(ord('\\')); j += 2
                    else:
                        bs.append(int(raw[j + 1:j + 3], 16)); j += 3
                else:
                    bs.append(ord(raw[j])); j += 1
            return ('bytes', bs)
        if k == 'int':
            try:
                return ('ci', int(t) & ((1 << ty.bits) - 1))
            except ValueError:
                pass
        if k == 'fp':
            return ('ci', parse_fp(t, ty.bits))
        if t in CASTS:
            self.expect('(')
            sty = self.type()
            v = self.value(sty)
            self.expect('to')
            dty = self.type()
            self.expect(')')
            return ('ce_cast', t, sty, v, dty)
        if t == 'getelementptr':
            inb = self.accept('inbounds')
            self.expect('(')
            bty = self.type()
            self.expect(',')
            pty = self.type()
            pv = self.value(pty)
            idx = []
            while self.accept(','):
                self.accept('inrange')
                ity = self.type()
                idx.append((ity, self.value(ity)))
            self.expect(')')
            return ('ce_gep', bty, pty, pv, idx)
        if t in BINOPS:
            while self.peek() in ('nuw', 'nsw', 'exact'):
                self.next()
            self.expect('(')
            aty = self.type(); a = self.value(aty)
            self.expect(',')
            bty = self.type(); b = self.value(bty)
            self.expect(')')
            return ('ce_bin', t, aty, a, b)
        raise ParseError('operand? %r (type %r) in %s' % (t, ty, self.line))

    def typed(self):
        ty = self.type()
        attrs = self.skip_attrs()
        return ty, self.value(ty), attrs


def parse_fp(t, bits):
    if t.startswith('0x'):
        body = t[2:]
        if body[0] in 'KLMHR':
            raise ParseError('unsupported fp literal ' + t)
        d = struct.unpack('>d', bytes.fromhex(body.rjust(16, '0')))[0]
        if bits == 64:
            return int(body, 16)
    else:
        d = float(t)
    if bits == 32:
        return struct.unpack('<I', struct.pack('<f', d))[0]
    if bits == 64:
        return struct.unpack('<Q', struct.pack('<d', d))[0]
    raise ParseError('fp literal width %d' % bits)


# ----------------------------------------------------------------------------- module level
def join_multiline(text):
    """switch tables are the only multi-line instruction clang emits; fold them."""
    out = []
    buf = None
    for line in text.split('\n'):
        if buf is not None:
            buf.append(line.strip())
            if line.strip().startswith(']'):
                out.append(' '.join(buf))
                buf = None
            continue
        s = line.rstrip()
        if s.lstrip().startswith('switch ') and s.endswith('['):
            buf = [s]
            continue
        out.append(line)
    return out


def strip_comment(line):
    # comments start with ';' outside of quotes
    if ';' not in line:
        return line
    inq = False
    for i, ch in enumerate(line):
        if ch == '"':
            inq = not inq
        elif ch == ';' and not inq:
            return line[:i]
    return line


def parse_module(text):
    mod = Module()
    lines = join_multiline(text)
    # pass 1: named types
    for line in lines:
        if line.startswith('%') and ' = type ' in line:
            toks = tokenize(strip_comment(line))
            nm = toks[0][1:].strip('"')
            p = P(mod, toks[3:], line)
            if nm not in mod.named:
                mod.named[nm] = Ty('struct', fields=[], name=nm)
            if p.peek() == 'opaque':
                continue
            ty = p.type()
            tgt = mod.named[nm]
            tgt.fields = ty.fields
            tgt.packed = ty.packed
    cur = None
    curlab = None
    for line in lines:
        if cur is None:
            if line.startswith('define'):
                cur = parse_define(mod, line)
                curlab = None
            elif line.startswith('@'):
                parse_global(mod, line)
            elif line.startswith('declare'):
                m = re.search(r'@([-\w.$]+|"[^"]+")\(', line)
                if m:
                    mod.decls[m.group(1).strip('"')] = line
            continue
        if line.startswith('}'):
            mod.fns[cur.name] = cur
            cur = None
            continue
        s = strip_comment(line).strip()
        if not s:
            continue
        m = re.match(r'^([-\w.$]+|"[^"]+"):', s)
        if m:
            curlab = m.group(1).strip('"')
            cur.blocks[curlab] = []
            cur.order.append(curlab)
            continue
        if curlab is None:
            # clang numbers the entry block after the arguments when unnamed
            curlab = cur.entry_label
            cur.blocks[curlab] = []
            cur.order.append(curlab)
        cur.text.append(s)
        cur.blocks[curlab].append(parse_inst(mod, s))
    return mod


def parse_define(mod, line):
    line = strip_comment(line)
    toks = tokenize(line)
    p = P(mod, toks, line)
    p.expect('define')
    ret_attrs = {}
    while p.peek() in LINKAGE or p.peek() in ARG_ATTRS or p.peek() in ARG_ATTRS_PAREN:
        if p.peek() in LINKAGE:
            p.next()
        else:
            ret_attrs.update(p.skip_attrs())
    ret = p.type()
    name = p.next()
    assert name[0] == '@', line
    fn = Function(name[1:].strip('"'))
    fn.ret = ret
    fn.ret_attrs = ret_attrs
    p.expect('(')
    unnamed = 0
    if p.peek() != ')':
        while True:
            if p.accept('...'):
                break
            ty = p.type()
            attrs = p.skip_attrs()
            t = p.peek()
            if t and t[0] == '%':
                nm = p.next()[1:].strip('"')
            else:
                nm = str(unnamed)
            if nm.isdigit():
                unnamed = int(nm) + 1
            fn.args.append((nm, ty, attrs))
            if not p.accept(','):
                break
    p.expect(')')
    fn.entry_label = str(unnamed)
    return fn


def parse_global(mod, line):
    line = strip_comment(line)
    toks = tokenize(line)
    p = P(mod, toks, line)
    name = p.next()[1:].strip('"')
    p.expect('=')
    const = False
    while p.peek() in LINKAGE or p.peek() in ('global', 'constant'):
        t = p.next()
        if t == 'constant':
            const = True
        if t == 'thread_local' and p.peek() == '(':
            while p.next() != ')':
                pass
    if p.peek() in ('alias', 'ifunc'):
        return
    ty = p.type()
    init = None
    if not p.done() and p.peek() != ',':
        init = p.value(ty)
    align = None
    while not p.done():
        t = p.next()
        if t == 'align':
            align = int(p.next())
    mod.globals[name] = Global(name, ty, init, const, align)


def parse_inst(mod, s):
    toks = tokenize(s)
    # cut trailing metadata (", !tbaa !5", "!llvm.loop !7", "!range !3" ...) and attribute refs
    cut = len(toks)
    for i, t in enumerate(toks):
        if t[0] == '!' and (i > 0 and toks[i - 1] == ','):
            cut = i - 1
            break
    meta = toks[cut:]
    toks = [t for t in toks[:cut] if not (t[0] == '#' and t[1:].isdigit())]
    p = P(mod, toks, s)
    dst = None
    if p.peek(1) == '=':
        dst = p.next()[1:].strip('"')
        p.next()
    op = p.next()
    flags = []
    while p.peek() in ('nuw', 'nsw', 'exact', 'inbounds', 'tail', 'notail', 'musttail', 'volatile', 'atomic') or p.peek() in FMF:
        flags.append(p.next())
    ins = Inst(op, dst, flags=tuple(flags), text=s)
    if op in BINOPS:
        ty = p.type()
        a = p.value(ty)
        p.expect(',')
        b = p.value(ty)
        ins.ty = ty
        ins.ops = (a, b)
    elif op == 'fneg' or op == 'freeze':
        ty = p.type()
        ins.ty = ty
        ins.ops = (p.value(ty),)
    elif op in ('icmp', 'fcmp'):
        pred = p.next()
        ty = p.type()
        a = p.value(ty)
        p.expect(',')
        b = p.value(ty)
        ins.ty = ty
        ins.ops = (a, b)
        ins.x = pred
    elif op in CASTS:
        sty = p.type()
        v = p.value(sty)
        p.expect('to')
        dty = p.type()
        ins.ty = dty
        ins.ops = (v,)
        ins.x = sty
    elif op == 'select':
        cty, c, _ = p.typed()
        p.expect(',')
        ty, a, _ = p.typed()
        p.expect(',')
        ty2, b, _ = p.typed()
        ins.ty = ty
        ins.ops = (c, a, b)
        ins.x = cty
    elif op == 'shufflevector':
        ty, a, _ = p.typed()
        p.expect(',')
        ty2, b, _ = p.typed()
        p.expect(',')
        mty = p.type()
        mv = p.value(mty)
        if mv[0] == 'zero':
            idx = [0] * mty.n
        elif mv[0] in ('undef', 'poison'):
            idx = [None] * mty.n
        else:
            idx = [None if e[1][0] in ('undef', 'poison') else e[1][1] for e in mv[1]]
        ins.ty = Ty('vec', n=mty.n, elem=ty.elem)
        ins.ops = (a, b)
        ins.x = (ty, idx)
    elif op == 'insertelement':
        ty, a, _ = p.typed()
        p.expect(',')
        ety, e, _ = p.typed()
        p.expect(',')
        ity, i, _ = p.typed()
        ins.ty = ty
        ins.ops = (a, e, i)
        ins.x = ity
    elif op == 'extractelement':
        ty, a, _ = p.typed()
        p.expect(',')
        ity, i, _ = p.typed()
        ins.ty = ty.elem
        ins.ops = (a, i)
        ins.x = (ty, ity)
    elif op == 'extractvalue':
        ty, a, _ = p.typed()
        idx = []
        while p.accept(','):
            idx.append(int(p.next()))
        ins.ty = ty
        ins.ops = (a,)
        ins.x = idx
    elif op == 'insertvalue':
        ty, a, _ = p.typed()
        p.expect(',')
        ety, e, _ = p.typed()
        idx = []
        while p.accept(','):
            idx.append(int(p.next()))
        ins.ty = ty
        ins.ops = (a, e)
        ins.x = (ety, idx)
    elif op == 'call':
        while p.peek() in LINKAGE or p.peek() in ARG_ATTRS or p.peek() in ARG_ATTRS_PAREN:
            if p.peek() in LINKAGE:
                p.next()
            else:
                p.skip_attrs()
        rty = p.type()
        if rty.kind == 'func':
            rty = rty.elem
        if rty.kind == 'ptr' and rty.elem.kind == 'func':
            rty = rty.elem.elem
        callee = p.next()
        asm = None
        if callee == 'asm':
            quals = []
            while p.peek() in ('sideeffect', 'alignstack', 'inteldialect', 'unwind'):
                quals.append(p.next())
            tmpl = p.next()
            p.expect(',')
            cons = p.next()
            asm = (tmpl.strip('"'), cons.strip('"'), quals)
            callee = 'asm'
        elif callee[0] == '@':
            callee = callee[1:].strip('"')
        elif callee[0] == '%':
            callee = ('indirect', callee[1:])
        else:
            raise ParseError('callee? ' + s)
        p.expect('(')
        args = []
        if p.peek() != ')':
            while True:
                aty, av, attrs = p.typed()
                args.append((aty, av, attrs))
                if not p.accept(','):
                    break
        p.expect(')')
        ins.ty = rty
        ins.ops = tuple(args)
        ins.x = (callee, asm)
    elif op == 'ret':
        if p.peek() == 'void':
            ins.ty = VOID
        else:
            ty = p.type()
            ins.ty = ty
            ins.ops = (p.value(ty),)
    elif op == 'phi':
        ty = p.type()
        inc = []
        while True:
            p.expect('[')
            v = p.value(ty)
            p.expect(',')
            lab = p.next()[1:].strip('"')
            p.expect(']')
            inc.append((lab, v))
            if not p.accept(','):
                break
        ins.ty = ty
        ins.x = inc
    elif op == 'br':
        if p.peek() == 'label':
            p.next()
            ins.x = (p.next()[1:].strip('"'),)
        else:
            ty = p.type()
            c = p.value(ty)
            p.expect(','); p.expect('label')
            l1 = p.next()[1:].strip('"')
            p.expect(','); p.expect('label')
            l2 = p.next()[1:].strip('"')
            ins.ops = (c,)
            ins.x = (l1, l2)
    elif op == 'switch':
        ty = p.type()
        c = p.value(ty)
        p.expect(','); p.expect('label')
        dflt = p.next()[1:].strip('"')
        p.expect('[')
        cases = []
        while p.peek() != ']':
            cty = p.type()
            cv = p.value(cty)
            p.expect(','); p.expect('label')
            cases.append((cv[1], p.next()[1:].strip('"')))
        ins.ty = ty
        ins.ops = (c,)
        ins.x = (dflt, cases)
    elif op == 'getelementptr':
        bty = p.type()
        p.expect(',')
        pty, pv, _ = p.typed()
        idx = []
        while p.accept(','):
            ity, iv, _ = p.typed()
            idx.append((ity, iv))
        ins.ty = pty
        ins.ops = (pv,)
        ins.x = (bty, idx)
    elif op == 'load':
        ty = p.type()
        p.expect(',')
        pty, pv, _ = p.typed()
        align = None
        while p.accept(','):
            if p.accept('align'):
                align = int(p.next())
            else:
                p.next()
        ins.ty = ty
        ins.ops = (pv,)
        ins.x = align
    elif op == 'store':
        ty, v, _ = p.typed()
        p.expect(',')
        pty, pv, _ = p.typed()
        align = None
        while p.accept(','):
            if p.accept('align'):
                align = int(p.next())
            else:
                p.next()
        ins.ty = ty
        ins.ops = (v, pv)
        ins.x = align
    elif op == 'alloca':
        ty = p.type()
        align = None
        cnt = None
        while p.accept(','):
            if p.accept('align'):
                align = int(p.next())
            else:
                cty = p.type()
                cnt = (cty, p.value(cty))
        ins.ty = ty
        ins.x = (align, cnt)
    elif op == 'unreachable':
        pass
    elif op == 'fence':
        pass
    else:
        raise ParseError('unhandled instruction %r in: %s' % (op, s))
    return ins
