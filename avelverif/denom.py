"""C14 / C15: scalar and vector Denominators.

The numerator is fully symbolic; the divisor is symbolic for 8-bit types and drawn from an enumerated lattice otherwise
(constructor executed on the interpreter's concrete path, division decided for ALL numerators per divisor).  For vector
denominators every lane carries a different divisor from the lattice."""
import random
import time
import traceback
import resource

import z3
from . import sym, symex, intrin, llir, harness, ops, avtypes, solve, replay, configs, sysconsts, known, runner
from .avtypes import VT, CT
from .sym import M, b_and, b_or, b_not


def lattice(bits, signed, tier, seed=0):
    w = bits
    vals = set()
    for k in range(w):
        for dlt in (-1, 0, 1):
            vals.add(((1 << k) + dlt) & M(w))
            if signed:
                vals.add((-(1 << k) + dlt) & M(w))
    vals |= {1, 2, 3, 5, 6, 7, 9, 10, 11, 12, 13, 25, 100, 127, 255, 641, 1000, 10000 & M(w), 65535 & M(w), 65537 & M(w),
             M(w), M(w) - 1, M(w) >> 1, (M(w) >> 1) + 1, (M(w) >> 1) - 1, 0xAAAAAAAAAAAAAAAA & M(w), 0x5555555555555555 & M(w),
             0x3333333333333333 & M(w), 0xCCCCCCCCCCCCCCCC & M(w)}
    for k in range(2, w - 1):
        vals.add((3 << k) & M(w))
        vals.add((5 << k) & M(w))
    if signed:
        for v in list(vals):
            vals.add((-v) & M(w))
    vals.discard(0)
    out = sorted(vals)
    if tier == 'quick':
        # keep the structurally interesting core small: +-1, +-2, extremes, every 4th power-of-two neighbourhood, a few odd values
        core = {1, 2, 3, 7, 10, 100 & M(w), M(w), M(w) - 1, M(w) >> 1, (M(w) >> 1) + 1, 641 & M(w), 0xAAAAAAAAAAAAAAAA & M(w), 0x5555555555555555 & M(w)}
        for k in range(0, w, 4):
            for dlt in (-1, 0, 1):
                core.add(((1 << k) + dlt) & M(w))
        core.add(1 << (w - 1))
        if signed:
            for v in list(core):
                core.add((-v) & M(w))
        core.discard(0)
        out = sorted(core)
        if bits >= 32:
            # quick tier: a fixed budget of divisors per type, always including the corners
            must = [1, 2, 3, 7, 10, M(w), M(w) - 1, 1 << (w - 1), (1 << (w - 1)) - 1, 641 & M(w)]
            if signed:
                must += [M(w), (-2) & M(w), (-3) & M(w), (-7) & M(w), (1 << (w - 1)) + 1]
            rest = [v for v in out if v not in must]
            rnd = random.Random(seed * 31 + bits)
            rnd.shuffle(rest)
            out = [v for v in must if v] + sorted(set(rest[:14]) - set(must))        # corners first: the time budget may cut the tail
            out = list(dict.fromkeys(out))
    else:
        rnd = random.Random(seed * 1000003 + bits * 2 + signed)
        extra = set()
        while len(extra) < 200:
            k = rnd.randrange(1, w + 1)
            v = rnd.getrandbits(k) & M(w)
            if v:
                extra.add(v)
                if signed:
                    extra.add((-v) & M(w))
        out = sorted(set(out) | extra)
    return out


class DOp:
    def __init__(self, name, kind, expr, res, tier='quick'):
        self.name = name
        self.kind = kind      # scalar | vector | broadcast
        self.expr = expr
        self.res = res        # quot rem value
        self.tier = tier


DOPS = [
    DOp('sd_quot', 'scalar', 'div(n, D).quot', 'quot'),
    DOp('sd_rem', 'scalar', 'div(n, D).rem', 'rem'),
    DOp('sd_op_quot', 'scalar', 'n / D', 'quot', 'thorough'),
    DOp('sd_op_rem', 'scalar', 'n % D', 'rem', 'thorough'),
    DOp('sd_quot_assign', 'scalar', 'vf::div_assign(n, D)', 'quot', 'thorough'),
    DOp('sd_rem_assign', 'scalar', 'vf::rem_assign(n, D)', 'rem', 'thorough'),
    DOp('sd_value', 'scalar', 'D.value()', 'value'),
    DOp('vd_quot', 'vector', 'div(n, D).quot', 'quot'),
    DOp('vd_rem', 'vector', 'div(n, D).rem', 'rem', 'thorough'),
    DOp('vd_op_quot', 'vector', 'n / D', 'quot', 'thorough'),
    DOp('vd_op_rem', 'vector', 'n % D', 'rem', 'thorough'),
    DOp('vd_quot_assign', 'vector', 'vf::div_assign(n, D)', 'quot', 'thorough'),
    DOp('vd_rem_assign', 'vector', 'vf::rem_assign(n, D)', 'rem', 'thorough'),
    DOp('vd_value', 'vector', 'D.value()', 'value'),
    DOp('vdb_quot', 'broadcast', 'div(n, D).quot', 'quot'),
    DOp('vdb_rem', 'broadcast', 'div(n, D).rem', 'rem', 'thorough'),
    DOp('vdb_value', 'broadcast', 'D.value()', 'value', 'thorough'),
]
BY_NAME = {d.name: d for d in DOPS}


def wrappers_for(cfg, prop, tier):
    out = []
    if prop == 'C14' and 'AVEL_X86' not in cfg.macros:
        out.append(dict(DIV64_WRAPPER))     # portable Knuth-D branch only (the x86 branch is one divq instruction)
    for d in DOPS:
        if d.tier == 'thorough' and tier != 'thorough':
            continue
        if prop == 'C14' and d.kind != 'scalar':
            continue
        if prop == 'C15' and d.kind == 'scalar':
            continue
        if d.kind == 'scalar':
            for bits in (8, 16, 32, 64):
                for kind in 'ui':
                    T = VT(1, bits, kind)
                    nm = 'w_den%d%s__%s' % (bits, kind, d.name)
                    line = ('VW %s %s(%s n, %s d) { avel::Denominator<%s> D{d}; return %s; }'
                            % (T.ctype, nm, T.ctype, T.ctype, T.ctype, d.expr))
                    out.append({'name': nm, 'line': line, 'op': d.name, 'type': T.name, 'scalar': True, 'K': None, 'denom': True,
                                'params': [T.ctype, T.ctype], 'rtype': T.ctype})
        else:
            for T in avtypes.ALL_TYPES:
                if T.kind == 'f' or not avtypes.available(T, cfg.macros):
                    continue
                V = 'avel::' + T.name
                nm = 'w_%s__%s' % (T.name, d.name)
                if d.kind == 'vector':
                    line = ('VW %s::primitive %s(%s::primitive n_, %s::primitive d_) { %s n{n_}; avel::Denominator<%s> D{%s{d_}}; return avel::decay(%s(%s)); }'
                            % (V, nm, V, V, V, V, V, V, d.expr))
                    params = [V + '::primitive', V + '::primitive']
                else:
                    line = ('VW %s::primitive %s(%s::primitive n_, %s d) { %s n{n_}; avel::Denominator<%s> D{avel::Denominator<%s>{d}}; return avel::decay(%s(%s)); }'
                            % (V, nm, V, T.ctype, V, V, T.ctype, V, d.expr))
                    params = [V + '::primitive', T.ctype]
                out.append({'name': nm, 'line': line, 'op': d.name, 'type': T.name, 'scalar': False, 'K': None, 'denom': True,
                            'params': params, 'rtype': V + '::primitive'})
    return out


def expected(T, res, n, d):
    w = T.bits
    if res == 'value':
        return d
    if T.signed:
        return sym.sdiv(n, d, w) if res == 'quot' else sym.srem(n, d, w)
    return sym.udiv(n, d, w) if res == 'quot' else sym.urem(n, d, w)


def domain(T, n, d):
    w = T.bits
    c = sym.ne(d, 0, w)
    if T.signed:
        c = b_and(c, b_not(b_and(sym.eq(n, 1 << (w - 1), w), sym.eq(d, M(w), w))))
    return c


def build_case(mod, meta, dvals):
    """dvals: None (symbolic divisors) or list of concrete divisors (one per lane / one scalar)"""
    dop = BY_NAME[meta['op']]
    T = harness.type_of(meta)
    fn = mod.fns[meta['name']]
    case = harness.Case()
    rm, _ = harness.make_rm(None)
    ops.CTX.rm = rm
    ex = symex.Executor(mod, intrin.Intrinsics(), assumptions=[])
    st, mx_asm = harness.init_state(ex, rm)
    case.assumptions += mx_asm
    ex.assumptions = case.assumptions
    N = T.n
    nl = [z3.BitVec('a0_%d' % j, T.bits) for j in range(N)] if not meta['scalar'] else [z3.BitVec('s0', T.bits)]
    if dop.kind == 'vector':
        dl = list(dvals) if dvals is not None else [z3.BitVec('a1_%d' % j, T.bits) for j in range(N)]
        dlanes = dl
    else:
        dl = [dvals[0]] if dvals is not None else [z3.BitVec('s1', T.bits)]
        dlanes = dl * N
    a0 = harness.pack_lanes(nl, T.bits, fn.args[0][1])
    a1 = harness.pack_lanes(dl, T.bits, fn.args[1][1])
    case.inputs = [{'kind': 'v' if not meta['scalar'] else 's', 'vars': nl, 'w': T.bits, 'ir': fn.args[0][1]},
                   {'kind': 'v' if dop.kind == 'vector' else 's', 'vars': dl, 'w': T.bits, 'ir': fn.args[1][1]}]
    if dvals is None:
        for d in dl:
            case.assumptions.append(d != 0)      # constructing a denominator for 0 is outside the domain
    finals = ex.run(meta['name'], [a0, a1], st)
    case.stats = {'paths': len(finals), 'steps': ex.total_steps, 'intrinsics': sorted(ex.intrinsics_used), 'callees': sorted(ex.called)}
    rty = fn.ret
    pcs = []
    for fi, f in enumerate(finals):
        pc = b_and(*f.pc)
        pcs.append(pc)
        tag = 'path%d' % fi
        for cat, bad, info, pcsnap in f.obls:
            case.obligations.append({'kind': cat, 'formula': b_and(b_and(*pcsnap), bad), 'desc': info, 'group': tag + ':ub'})
        if f.mxcsr is not st.extra['mxcsr0']:
            case.obligations.append({'kind': 'fpenv:mxcsr-changed', 'group': tag + ':fpenv', 'desc': 'MXCSR control bits differ at return',
                                     'formula': b_and(pc, sym.ne(sym.and_(f.mxcsr, 0xFFC0, 32), sym.and_(st.extra['mxcsr0'], 0xFFC0, 32), 32))})
        if f.ret is None:
            continue
        got, pp = harness.unpack_lanes(f.ret, rty, T.bits, N)
        for j in range(N):
            lp = domain(T, nl[j], dlanes[j]) if dop.res != 'value' else sym.ne(dlanes[j], 0, T.bits)
            e = expected(T, dop.res, nl[j], dlanes[j])
            case.obligations.append({'kind': 'result', 'group': tag + ':result', 'lane': j,
                                     'formula': b_and(pc, lp, b_not(pp[j]), sym.ne(got[j], e, T.bits)),
                                     'desc': 'lane %d of %s' % (j, meta['name']), 'got': got[j], 'exp': e})
            case.obligations.append({'kind': 'ub:poison-returned', 'group': tag + ':ub', 'lane': j,
                                     'formula': b_and(pc, lp, pp[j]), 'desc': 'lane %d is poison' % j})
    case.vacuity = b_or(*pcs) if pcs else False
    return case


def judge_native(meta, rty, nvals, dvals, native, kind):
    dop = BY_NAME[meta['op']]
    T = harness.type_of(meta)
    if 'error' in native:
        return False, native['error']
    if 'signal' in native:
        return True, 'signal %d raised' % native['signal']
    if kind.startswith('trap'):
        return False, 'no signal'
    if kind.startswith('ub:'):
        rep = [l for l in native.get('stderr', '').split('\n') if 'runtime error:' in l]
        return bool(rep), ('UBSan: ' + rep[0][-300:]) if rep else 'no sanitizer report'
    if 'bytes' not in native:
        return False, 'no result'
    ret = replay.bytes_ir(native['bytes'], rty)
    got, _ = harness.unpack_lanes(ret, rty, T.bits, T.n)
    for j in range(T.n):
        n, d = nvals[j], dvals[j]
        if d == 0:
            continue
        if dop.res != 'value' and T.signed and n == 1 << (T.bits - 1) and d == M(T.bits):
            continue
        e = expected(T, dop.res, n, d)
        if got[j] != e:
            return True, 'lane %d: n=%#x d=%#x observed %#x expected %#x' % (j, n, d, got[j], e)
    return False, 'native result matches'


def replay_denom(prop, meta, cfg, fn, model, dvals, kind):
    import hashlib, json, os
    dop = BY_NAME[meta['op']]
    T = harness.type_of(meta)
    N = T.n
    if meta['scalar']:
        nvals = [int(model.get('s0', 0))]
    else:
        nvals = [int(model.get('a0_%d' % j, 0)) for j in range(N)]
    if dvals is None:
        if dop.kind == 'vector':
            dv = [int(model.get('a1_%d' % j, 1)) for j in range(N)]
        else:
            dv = [int(model.get('s1', 1))]
    else:
        dv = list(dvals)
    dl = dv if dop.kind == 'vector' else dv * N
    bts = [replay.ir_bytes(harness.pack_lanes(nvals, T.bits, fn.args[0][1]), fn.args[0][1]),
           replay.ir_bytes(harness.pack_lanes(dv, T.bits, fn.args[1][1]), fn.args[1][1])]
    h = hashlib.sha1(json.dumps([meta['name'], cfg.name, bts, kind]).encode()).hexdigest()[:10]
    outdir = os.path.join(replay.REPLAYS, prop, '%s.%s.%s' % (meta['name'], cfg.name, h))
    sanitize = kind.startswith('ub:')
    natives = replay.run_native(meta, cfg, bts, 'RNE', outdir, sanitize=sanitize, compilers=[('clang++-14', '-O1')] if sanitize else None)
    confirmed = False
    details = {}
    for key, nat in natives.items():
        ok, det = judge_native(meta, fn.ret, nvals, dl, nat, kind)
        details[key] = det
        confirmed = confirmed or ok
    case = {'property': prop, 'wrapper': meta, 'config': cfg.name, 'kind': kind, 'denom': True, 'n': nvals, 'd': dv, 'arg_bytes': bts,
            'confirmed': confirmed, 'details': details}
    json.dump(case, open(os.path.join(outdir, 'case.json'), 'w'), indent=1, default=str)
    sh = os.path.join(outdir, 'run.sh')
    open(sh, 'w').write('#!/bin/sh\ncd "%s" && exec python3-vt -m avelverif.denom "%s"\n' % (replay.ROOT, outdir))
    os.chmod(sh, 0o755)
    return {'confirmed': confirmed, 'detail': details, 'path': sh, 'inputs': ['n=' + replay.fmt(nvals), 'd=' + replay.fmt(dv)], 'rm': 'RNE'}


WINDOW_BITS = 12


def bounded_windows(case, undecided, pf):
    """Full-range query undecided: decide it for every numerator within 2^12 of 0, of the minimum and of the maximum of the type
    (each lane independently).  Returns (still-undecided list with a note, number of window queries discharged, counterexamples)."""
    nvars = [v for v in case.inputs[0]['vars'] if z3.is_expr(v)]
    if not nvars:
        return undecided, 0, []
    w = nvars[0].size()
    bases = {'zero': (-(1 << (WINDOW_BITS - 1))) & M(w), 'max': (M(w) >> 1) - (1 << WINDOW_BITS) + 1, 'min': 1 << (w - 1),
             'umax': M(w) - (1 << WINDOW_BITS) + 1}
    out = []
    nb = 0
    cex = []
    index = {}
    for ob in case.obligations:
        index[(ob['kind'], ob['desc'])] = ob
    for u in undecided:
        ob = index.get((u['kind'], u['desc']))
        if ob is None or isinstance(ob['formula'], bool):
            out.append(u)
            continue
        okall = True
        for nm, base in bases.items():
            pairs = []
            for j, v in enumerate(nvars):
                k = z3.BitVec('win%d' % j, WINDOW_BITS)
                pairs.append((v, z3.BitVecVal(base, w) + z3.ZeroExt(w - WINDOW_BITS, k)))
            f = z3.substitute(sym.bz(ob['formula']), *pairs)
            r, m, dt = solve.z3_check(case.assumptions, f, 20000)
            pf.stats.calls['z3'] += 1
            pf.stats.time['z3'] += dt
            if r == 'unsat':
                nb += 1
            elif r == 'sat':
                model = {}
                for j, v in enumerate(nvars):
                    kv = m.get('win%d' % j, 0)
                    model[v.decl().name()] = (base + int(kv)) & M(w)
                cex.append({'kind': ob['kind'], 'desc': ob['desc'], 'model': model})
                okall = False
                break
            else:
                okall = False
        out.append(dict(u, note='full numerator range undecided; %s for every numerator within 2^%d of 0, MIN, MAX and UMAX'
                        % ('holds' if okall else 'also undecided', WINDOW_BITS)))
    return out, nb, cex


def solve_task(task):
    """one (wrapper, list of divisor groups) -> result dict in the format of runner.solve_wrapper"""
    t0 = time.time()
    meta = task['meta']
    res = {'name': meta['name'], 'op': meta['op'], 'type': meta['type'], 'cfg': task['cfg'], 'status': 'ok', 'time': 0.0,
           'obligations': 0, 'discharged': 0, 'trivial': 0, 'by_symmetry': 0, 'nontrivial': 0, 'undecided': [], 'known_hits': [],
           'violations': [], 'unconfirmed': [], 'paths': 0, 'steps': 0, 'intrinsics': set(), 'callees': set()}
    b = dict(task['budget'])
    T0 = harness.type_of(meta)
    quick = task.get('tier') != 'thorough'
    # measured: z3 decides 8/16-bit lanes; cvc5 int-blast decides unsigned 32/64-bit lanes in < 2 s per divisor; nothing decides the
    # signed 32/64-bit magic-number division over the full numerator range, so that attempt gets a small budget and the bounded
    # windows below are used instead
    b['z3_ms'] = 1000 if T0.bits >= 32 else (4000 if quick else 20000)
    b['fallback_s'] = (6 if quick else 30) if T0.bits >= 32 else (20 if quick else 60)
    b['group_ms'] = 300 if T0.bits == 8 else 800
    b['max_unknown'] = 2 if quick else 4
    hopeless_full_range = T0.signed and T0.bits >= 32
    if hopeless_full_range and quick:
        b['z3_ms'] = 400
    pf = solve.Portfolio(z3_ms=b['z3_ms'], fallback_s=b['fallback_s'], use_cvc5=T0.bits >= 32 and not (hopeless_full_range and quick),
                         use_kissat=T0.bits <= 16, plain_cvc5=False)
    res['bounded'] = 0
    try:
        ops.CTX.consts = sysconsts.load()
        mod = runner.get_mod(task['ll'])
        fn = mod.fns[meta['name']]
        cfg = configs.BY_NAME[task['cfg']]
        deadline = t0 + task.get('soft_s', 200)
        groups = task['groups']
        done_groups = 0
        for dvals in groups:
            if time.time() > deadline:
                res['undecided'].append({'kind': 'budget', 'desc': '%d of %d divisor groups not reached within the time budget' % (len(groups) - done_groups, len(groups))})
                break
            case = build_case(mod, meta, dvals)
            res['paths'] += case.stats['paths']
            res['steps'] += case.stats['steps']
            res['intrinsics'] |= set(case.stats['intrinsics'])
            res['callees'] |= set(case.stats['callees'])
            if not runner.vacuity_ok(case, pf):
                res['status'] = 'vacuous'
                res['detail'] = 'unsatisfiable assumptions for divisors %s' % (dvals,)
                break
            rounds = 0
            while True:
                rounds += 1
                d = runner.decide_case(case, pf, b)
                if not d['sat'] or rounds > 3:
                    break
                for s in d['sat']:
                    rp = replay_denom(task['prop'], meta, cfg, fn, s['model'], dvals, s['kind'])
                    rec = {'kind': s['kind'], 'desc': s['desc'], 'inputs': rp['inputs'], 'rm': 'RNE', 'replay': rp['path'],
                           'confirmed': rp['confirmed'], 'detail': rp['detail'], 'solver': s['solver']}
                    if not rp['confirmed']:
                        res['unconfirmed'].append(rec)
                    else:
                        ent = known.match(task.get('known', []), task['prop'], meta, cfg, s['kind'], s.get('desc', ''))
                        if ent is None:
                            res['violations'].append(rec)
                        else:
                            rec['known_id'] = ent['id']
                            res['known_hits'].append(rec)
                    for ob in case.obligations:
                        if ob['kind'] == s['kind']:
                            ob['formula'] = False
            for k in ('obligations', 'discharged', 'trivial', 'by_symmetry'):
                res[k] += d[k]
            res['nontrivial'] += len(d['nontrivial_ids'])
            und = d['undecided']
            if und and T0.bits >= 32:
                und, nb, cex = bounded_windows(case, und, pf)
                res['bounded'] += nb
                for s in cex:
                    rp = replay_denom(task['prop'], meta, cfg, fn, s['model'], dvals, s['kind'])
                    rec = {'kind': s['kind'], 'desc': s['desc'], 'inputs': rp['inputs'], 'rm': 'RNE', 'replay': rp['path'],
                           'confirmed': rp['confirmed'], 'detail': rp['detail'], 'solver': 'z3'}
                    if rp['confirmed']:
                        ent = known.match(task.get('known', []), task['prop'], meta, cfg, s['kind'], s.get('desc', ''))
                        if ent is None:
                            res['violations'].append(rec)
                        else:
                            rec['known_id'] = ent['id']
                            res['known_hits'].append(rec)
                    else:
                        res['unconfirmed'].append(rec)
            res['undecided'] += [dict(u, divisors=replay.fmt(list(dvals)) if dvals else 'symbolic') for u in und]
            done_groups += 1
            # one reproduced violation / known hit per class is enough for this wrapper
            lim = 1 if quick else 3
            if len(res['violations']) >= lim or len(res['known_hits']) >= lim:
                res['note'] = 'stopped after %d reproduced counterexample(s)' % lim
                break
        res['groups_done'] = done_groups
        res['groups_total'] = len(groups)
        res['solver_time'] = pf.stats.time
        res['solver_calls'] = pf.stats.calls
        res['decided_by'] = pf.stats.decided_by
        if res['violations']:
            res['status'] = 'violation'
        elif res['status'] == 'ok' and res['undecided']:
            res['status'] = 'undecided'
        elif res['status'] == 'ok' and res['known_hits']:
            res['status'] = 'known'
    except symex.NotEncodable as e:
        res['status'] = 'not-encodable'
        res['detail'] = str(e)[:300]
    except Exception:
        res['status'] = 'crash'
        res['detail'] = traceback.format_exc()[-1500:]
    res['intrinsics'] = sorted(res['intrinsics'])
    res['callees'] = sorted(res['callees'])
    res['time'] = time.time() - t0
    res['rss_mb'] = resource.getrusage(resource.RUSAGE_SELF).ru_maxrss // 1024
    return res


# ------------------------------------------------------------------------------------------------ 128/64 division helper of the 64-bit constructors
DIV64_WRAPPER = {'name': 'w_div64uhi__spec', 'op': 'div64uhi', 'type': 'vec1x64u', 'scalar': True, 'K': None, 'denom': True,
                 'line': 'VW std::uint64_t w_div64uhi__spec(std::uint64_t x, std::uint64_t y) { return avel::div_64uhi_by_64u(x, y); }',
                 'params': ['std::uint64_t', 'std::uint64_t'], 'rtype': 'std::uint64_t'}


def solve_div64(task):
    """avel::div_64uhi_by_64u(x, y) (the magic-number source of Denominator<int64_t>) against floor(x * 2^64 / y) for all x < y.
    BUG HUNTING ONLY: measured (z3, cvc5, cvc5 int-blast, 300 s each, even with the divisor's high half fixed) no back end proves the
    Knuth-D trial-quotient corrections, so on a correct tree this obligation stays *undecided* and is reported as such; a wrong
    correction is found as a model within the budget (seeded change C14-m1: 47-80 s) and replayed against unsigned __int128."""
    import os, json, hashlib, subprocess
    from . import build
    t0 = time.time()
    meta = task['meta']
    res = {'name': meta['name'], 'op': meta['op'], 'type': meta['type'], 'cfg': task['cfg'], 'status': 'ok', 'time': 0.0,
           'obligations': 0, 'discharged': 0, 'trivial': 0, 'by_symmetry': 0, 'nontrivial': 0, 'undecided': [], 'known_hits': [],
           'violations': [], 'unconfirmed': [], 'paths': 0, 'steps': 0, 'intrinsics': [], 'callees': []}
    try:
        ops.CTX.consts = sysconsts.load()
        mod = runner.get_mod(task['ll'])
        fn = mod.fns[meta['name']]
        cfg = configs.BY_NAME[task['cfg']]
        rm, _ = harness.make_rm(None)
        ops.CTX.rm = rm
        asm = []
        ex = symex.Executor(mod, intrin.Intrinsics(), assumptions=asm)
        st, mx_asm = harness.init_state(ex, rm)
        asm += mx_asm
        x, y = z3.BitVec('s0', 64), z3.BitVec('s1', 64)
        asm.append(z3.ULT(x, y))             # documented domain: the quotient fits in 64 bits
        finals = ex.run(meta['name'], [harness.pack_lanes([x], 64, fn.args[0][1]), harness.pack_lanes([y], 64, fn.args[1][1])], st)
        res['paths'] = len(finals)
        res['steps'] = ex.total_steps
        res['callees'] = sorted(ex.called)
        W = 130
        N = z3.Concat(z3.BitVecVal(0, W - 128), x, z3.BitVecVal(0, 64))
        Y = z3.ZeroExt(W - 64, y)
        bad = []
        ubs = []
        for f in finals:
            pc = sym.bz(b_and(*f.pc))
            for cat, b_, info, pcsnap in f.obls:
                ubs.append((cat, info, sym.bz(b_and(b_and(*pcsnap), b_))))
            if f.ret is None:
                continue
            got, _pp = harness.unpack_lanes(f.ret, fn.ret, 64, 1)
            q = sym.bv(got[0], 64)
            Q = z3.ZeroExt(W - 64, q)
            bad.append(z3.And(pc, z3.Not(z3.And(z3.ULE(Q * Y, N), z3.ULT(N, Q * Y + Y)))))
        budget_ms = int(task.get('soft_s', 60) * 1000)
        res['obligations'] = 1 + len(ubs)
        for cat, info, fml in ubs:
            r, m, dt = solve.z3_check(asm, fml, 5000)
            if r == 'unsat':
                res['discharged'] += 1
            elif r == 'sat':
                res['undecided'].append({'kind': cat, 'desc': info + ' (model found, not replayed)'})
            else:
                res['undecided'].append({'kind': cat, 'desc': info})
        goal = z3.Or(*bad) if bad else z3.BoolVal(False)
        # the arguments Denominator<std::int64_t>(d) passes: y = |d| in [2, 2^63], x = 2^(l-1), l = bit_width(|d| - 1)
        # one task per bit length l of |d| - 1, so that the normalisation shift and x are constants
        l = int(task['l'])
        use = [z3.UGT(y, 1 << (l - 1)), z3.ULE(y, 1 << l), x == (1 << (l - 1))]
        r, m, dt = solve.z3_check(asm + use, goal, budget_ms)
        res['name'] = '%s__l%d' % (meta['name'], l)
        res['solver_time'] = {'z3': dt}
        res['solver_calls'] = {'z3': 1 + len(ubs)}
        res['decided_by'] = {}
        if r == 'unsat':
            res['discharged'] += 1
        elif r == 'unknown':
            res['undecided'].append({'kind': 'result', 'desc': 'magic number of Denominator<std::int64_t>(d) for symbolic d: div_64uhi_by_64u(2^(l-1), |d|) == floor(2^(63+l) / |d|): for 2^%d < |d| <= 2^%d: no verdict in %d s (bug hunting only; see DESIGN.md 12.7)' % (l - 1, l, budget_ms // 1000)})
        else:
            xv, yv = int(m.get('s0', 0)), int(m.get('s1', 0))
            h = hashlib.sha1(('%d.%d.%s' % (xv, yv, cfg.name)).encode()).hexdigest()[:10]
            outdir = os.path.join(replay.REPLAYS, task['prop'], '%s.%s.%s' % (meta['name'], cfg.name, h))
            os.makedirs(outdir, exist_ok=True)
            src = ('#include "verif_prelude.hpp"\n#include <cstdio>\n#include <cstdint>\n'
                   'static int bad = 0;\n'
                   'static void probe(std::int64_t n, std::int64_t d) { avel::Denominator<std::int64_t> D{d}; auto r = div(n, D);\n'
                   '  if (r.quot != n / d || r.rem != n %% d) { if (!bad) std::printf("n=%%lld d=%%lld observed {%%lld, %%lld} expected {%%lld, %%lld}\\n", (long long)n, (long long)d, (long long)r.quot, (long long)r.rem, (long long)(n / d), (long long)(n %% d)); bad = 1; } }\n'
                   'int main() { const std::uint64_t y = %dull; const std::uint64_t kmax = 0x7fffffffffffffffull / y;\n'
                   '  for (int s = 0; s < 2; ++s) { std::int64_t d = s ? -(std::int64_t)y : (std::int64_t)y; if (y == (1ull << 63) && !s) continue;\n'
                   '    for (std::uint64_t i = 0; i < 256; ++i) { std::uint64_t k = i < 128 ? i + 1 : (kmax > (i - 128) ? kmax - (i - 128) : 1); if (k == 0 || k > kmax) continue;\n'
                   '      for (int dl = -1; dl <= 1; ++dl) { std::int64_t n = (std::int64_t)(k * y) + dl; probe(n, d); probe(-n, d); } } }\n'
                   '  if (!bad) std::printf("Denominator<int64_t>(+-%%llu) divides every probed numerator correctly\\n", (unsigned long long)y);\n'
                   '  return bad; }\n' % yv)
            open(os.path.join(outdir, 'repro.cpp'), 'w').write(src)
            sh = os.path.join(outdir, 'run.sh')
            open(sh, 'w').write('#!/bin/sh\n# exit 1 if the violation reproduces\ncd "%s" && g++ %s -O2 -w -I%s -I%s repro.cpp -o repro.bin && ./repro.bin; rc=$?; rm -f repro.bin; exit $rc\n'
                                % (outdir, ' '.join(cfg.flags()), os.path.join(build.HERE, 'cxx'), build.repo_include()))
            os.chmod(sh, 0o755)
            rr = subprocess.run(['sh', sh], stdout=subprocess.PIPE, stderr=subprocess.STDOUT, universal_newlines=True)
            rec = {'kind': 'result', 'desc': 'div_64uhi_by_64u(2^(l-1), |d|) != floor(2^(63+l) / |d|): Denominator<std::int64_t>(d) gets a wrong magic number', 'inputs': ['d=+-%#x' % yv, 'n = k|d| + {-1,0,1}'], 'rm': 'RNE', 'replay': sh,
                   'confirmed': rr.returncode == 1, 'detail': {'g++-O2': rr.stdout[-300:]}, 'solver': 'z3'}
            (res['violations'] if rec['confirmed'] else res['unconfirmed']).append(rec)
        if res['violations']:
            res['status'] = 'violation'
        elif res['undecided']:
            res['status'] = 'undecided'
    except symex.NotEncodable as e:
        res['status'] = 'not-encodable'
        res['detail'] = str(e)[:300]
    except Exception:
        res['status'] = 'crash'
        res['detail'] = traceback.format_exc()[-1500:]
    res['time'] = time.time() - t0
    res['rss_mb'] = resource.getrusage(resource.RUSAGE_SELF).ru_maxrss // 1024
    return res


def groups_for(meta, tier, seed):
    if meta['op'] == 'div64uhi':
        return [None]
    dop = BY_NAME[meta['op']]
    T = harness.type_of(meta)
    if T.bits == 8:
        return [None]                    # divisor symbolic: all (n, d) pairs decided at once
    lat = lattice(T.bits, T.signed, tier, seed)
    if T.bits == 16 and tier == 'thorough' and meta['scalar'] and dop.res != 'value':
        lat = list(range(1, 1 << 16))    # every 16-bit divisor
    if dop.kind != 'vector':
        return [[d] for d in lat]
    N = T.n
    groups = []
    # corner divisors first, so that the first group holds them whatever the time budget cuts later
    w = T.bits
    must = [1, 2, 3, 7, 10 & M(w), M(w), M(w) - 1, 1 << (w - 1), (1 << (w - 1)) - 1, 641 & M(w), (-2) & M(w), (-3) & M(w), (-7) & M(w), (1 << (w - 1)) + 1,
            5, 6, 100 & M(w), 255 & M(w), 9, 11, 12, 13, 25]
    inlat = set(lat)
    head = list(dict.fromkeys(v for v in must if v in inlat))
    lat = head + [v for v in lat if v not in set(head)]
    # every lattice value appears at least once, lanes of one group carry different divisors
    rot = lat + lat[:N]
    for i in range(0, len(lat), N):
        g = rot[i:i + N]
        if len(g) < N:
            g = (g + lat)[:N]
        groups.append(g)
    if N > 1 and groups:
        # the same corner divisors once more, one lane further on: emulations treat even/odd lanes and 128-bit halves differently
        g0 = groups[0]
        groups.insert(1, g0[-1:] + g0[:-1])
    return groups


def main(argv):
    import json, os
    d = argv[1]
    case = json.load(open(os.path.join(d, 'case.json')))
    meta = case['wrapper']
    cfg = configs.BY_NAME[case['config']]
    from . import build
    text, ok, dropped, cmd, _ll = build.compile_ir(cfg, [meta], 'replay', keep=False)
    mod = llir.parse_module(text)
    fn = mod.fns[meta['name']]
    kind = case['kind']
    sanitize = kind.startswith('ub:')
    natives = replay.run_native(meta, cfg, case['arg_bytes'], 'RNE', d, sanitize=sanitize, compilers=[('clang++-14', '-O1')] if sanitize else None)
    dop = BY_NAME[meta['op']]
    T = harness.type_of(meta)
    dl = case['d'] if dop.kind == 'vector' else case['d'] * T.n
    bad = False
    for key, nat in natives.items():
        ok_, det = judge_native(meta, fn.ret, case['n'], dl, nat, kind)
        print('%s: %s -> %s' % (key, 'REPRODUCES' if ok_ else 'does not reproduce', det))
        bad = bad or ok_
    return 1 if bad else 0


if __name__ == '__main__':
    import sys
    sys.exit(main(sys.argv))
