"""Compile generated wrappers with clang++-14 to textual IR; wrappers that do not compile are dropped one round at a
time and reported (never silently)."""
import hashlib
import os
import re
import subprocess

from . import gen

HERE = os.path.dirname(os.path.abspath(__file__))
REPO = os.environ.get('AVEL_REPO', '/repo')
BUILD = os.environ.get('AVEL_VERIF_BUILD', os.path.join(os.path.dirname(HERE), 'build'))
CLANG = 'clang++-14'
BASEFLAGS = ['-O1', '-fno-vectorize', '-fno-slp-vectorize', '-fno-unroll-loops', '-fno-exceptions',
             '-mllvm', '-inline-threshold=100000', '-S', '-emit-llvm', '-w', '-ferror-limit=0',
             '-I' + os.path.join(HERE, 'cxx')]


def repo_include():
    return os.path.join(REPO, 'include')


def compile_ir(cfg, wrappers, tag, extra_flags=(), extra_includes=(), keep=True):
    """-> (ir_text, compiled_wrappers, dropped [(wrapper, first error line)], cmd, ll_path)"""
    os.makedirs(BUILD, exist_ok=True)
    dropped = []
    ws = list(wrappers)
    for rnd in range(12):
        src, first = gen.source(ws, extra_includes)
        h = hashlib.sha1((src + repr(cfg.flags()) + repr(extra_flags)).encode()).hexdigest()[:12]
        base = os.path.join(BUILD, '%s.%s.%s' % (tag, cfg.name, h))
        cpp = base + '.cpp'
        ll = base + '.ll'
        with open(cpp, 'w') as f:
            f.write(src)
        cmd = [CLANG] + cfg.flags() + BASEFLAGS + list(extra_flags) + ['-I' + repo_include(), cpp, '-o', ll]
        r = subprocess.run(cmd, stdout=subprocess.PIPE, stderr=subprocess.PIPE, universal_newlines=True)
        if r.returncode == 0:
            text = open(ll).read()
            if not keep:
                os.unlink(cpp)
                os.unlink(ll)
            return text, ws, dropped, cmd, ll
        # map diagnostics to wrapper lines
        bad = {}
        cur_err = None
        for line in r.stderr.split('\n'):
            m = re.match(r'^(.*?):(\d+):(\d+): (error|fatal error): (.*)', line)
            if m:
                cur_err = m.group(5)
                if os.path.abspath(m.group(1)) == os.path.abspath(cpp):
                    bad.setdefault(int(m.group(2)), cur_err)
                else:
                    pending = cur_err
                continue
            m = re.match(r'^(.*?):(\d+):(\d+): note: (.*)', line)
            if m and cur_err and os.path.abspath(m.group(1)) == os.path.abspath(cpp):
                bad.setdefault(int(m.group(2)), cur_err)
        idx = sorted(i - first for i in bad if 0 <= i - first < len(ws))
        if not idx:
            raise RuntimeError('compilation failed and no wrapper could be blamed:\n' + r.stderr[:4000])
        for i in idx:
            dropped.append((ws[i], bad[i + first]))
        keepset = set(idx)
        ws = [w for i, w in enumerate(ws) if i not in keepset]
        os.unlink(cpp)
    raise RuntimeError('too many compile rounds')
