"""avelcheck: decide one property on /repo's current working tree.

  avelcheck --property C01 --tier quick|thorough [--configs a,b] [--ops regex] [--types regex] [--jobs N]
  avelcheck --replay <path>

exit 0: the property held on everything decided (undecided / not-encodable obligations are reported, never counted as
success); exit 1 + "VIOLATION property=<id> replay=<path>" for every natively reproduced violation that is not a listed
known finding."""
import argparse
import hashlib
import json
import os
import re
import subprocess
import sys
import time

from . import build, configs, gen, llir, ops, runner, known, sysconsts, special, memops, validate, changes

ROOT = os.path.dirname(build.HERE)
EVIDENCE = os.path.join(ROOT, 'evidence')

BUDGET = {
    'quick': {'z3_ms': 8000, 'fallback_s': 25, 'group_ms': 1500, 'hard_s': 240, 'cvc5': True, 'kissat': True, 'max_unknown': 2},
    'thorough': {'z3_ms': 120000, 'fallback_s': 600, 'group_ms': 5000, 'hard_s': 3000, 'cvc5': True, 'kissat': True, 'plain_cvc5': True, 'max_unknown': 12},
}

PROP_TEXT = {}


def load_props():
    for line in open(os.path.join(ROOT, 'properties.jsonl')):
        p = json.loads(line)
        PROP_TEXT[p['id']] = p


def fn_hash(mod, name, seen=None):
    """hash of a function body and of every function it (transitively) calls"""
    fn = mod.fns[name]
    h = hashlib.sha1()
    h.update(repr([(repr(t), sorted(a)) for _, t, a in fn.args]).encode())
    h.update(repr(fn.ret).encode())
    h.update('\n'.join(fn.text).encode())
    seen = seen or {name}
    for line in fn.text:
        for c in re.findall(r'@([\w.$]+)\(', line):
            if c in mod.fns and c not in seen:
                seen.add(c)
                h.update(fn_hash(mod, c, seen).encode())
    return h.hexdigest()[:16]


def oracle_key(w):
    if w.get('mem'):
        return ('mem', w['op'])
    o = ops.BY_NAME[w['op']]
    f = getattr(o.oracle, 'lane', o.oracle)
    return (f.__name__, getattr(o.lane_pre, '__name__', None) if o.lane_pre else None, o.cmp, o.args, o.ret, o.rm,
            getattr(o.pre, '__name__', None) if o.pre else None)


def main(argv=None):
    ap = argparse.ArgumentParser()
    ap.add_argument('--property')
    ap.add_argument('--tier', default=os.environ.get('VERIF_TIER', 'quick'))
    ap.add_argument('--configs')
    ap.add_argument('--ops')
    ap.add_argument('--types')
    ap.add_argument('--jobs', type=int, default=int(os.environ.get('VERIF_JOBS', '0')) or None)
    ap.add_argument('--replay')
    ap.add_argument('--no-evidence', action='store_true')
    ap.add_argument('--verbose', '-v', action='store_true')
    a = ap.parse_args(argv)
    if a.replay:
        from . import replay
        d = a.replay
        if d.endswith('run.sh'):
            d = os.path.dirname(d)
        return replay.main(['replay', d])
    load_props()
    prop = a.property
    if prop not in PROP_TEXT:
        print('unknown property', prop)
        return 2
    tier = a.tier if a.tier in ('quick', 'thorough') else 'quick'
    seed = int(os.environ.get('VERIF_SEED', '0') or 0)
    t0 = time.time()
    if prop in special.HANDLERS:
        return special.HANDLERS[prop](prop, tier, seed, a)
    return run_wrapper_property(prop, tier, seed, a, t0)


def run_wrapper_property(prop, tier, seed, a, t0, extra_tasks=None, extra_evidence=None, cfgs=None, gen_kwargs=None):
    budget = dict(BUDGET[tier])
    if prop == 'C05' and tier == 'quick':
        budget.update({'hard_s': 110, 'max_unknown': 1, 'fallback_s': 15})      # division: most 16/32-bit float-route queries are hopeless in the quick budget
    if prop == 'C05' and tier == 'thorough':
        # measured: what the portfolio does not decide about a divider in a few minutes it does not decide in an hour; keep the run to about an hour and a half
        budget.update({'hard_s': 500, 'max_unknown': 3, 'z3_ms': 30000, 'fallback_s': 120})
    ladder = configs.check_ladder(build.REPO)
    cfgs = cfgs or configs.for_tier(tier)
    if a.configs:
        cfgs = [configs.BY_NAME[c] for c in a.configs.split(',')]
    kf = known.load()
    ops.CTX.consts = sysconsts.load()
    tasks = []
    dedup = {}
    compile_info = []
    dropped_all = []
    n_dedup = 0
    per_cfg_counts = {}
    validation = {'cases': 0, 'skipped': 0, 'mismatches': [], 'errors': [], 'wall_s': 0.0}
    # change awareness (quick tier only, additive): headers that differ from the committed baseline pull in every configuration
    # for the vector types they can affect
    focus = {}
    changed = []
    if tier == 'quick' and not a.configs:
        try:
            changed = changes.changed_files()
        except Exception:
            changed = []
        if changed:
            atypes, ascalar, aglobal = changes.affected_types(changed)
            have = {c.name for c in cfgs}
            extra_cfgs = [c for c in configs.ALL if c.name not in have]
            if atypes or ascalar:
                for c in extra_cfgs:
                    focus[c.name] = (atypes, ascalar)
                cfgs = list(cfgs) + extra_cfgs
            print('[%s quick] %d header(s) differ from the baseline (%s%s): adding %d configuration(s) for %d affected type(s)%s'
                  % (prop, len(changed), ', '.join(os.path.basename(c) for c in changed[:4]), ' ...' if len(changed) > 4 else '', len(focus), len(atypes),
                     ' and the scalar overloads' if ascalar else ''), flush=True)
    for cfg in cfgs:
        ws = gen.wrappers_for(cfg, [prop], tier, **(gen_kwargs or {})) + memops.wrappers_for(cfg, [prop], tier)
        if cfg.name in focus:
            atypes, ascalar = focus[cfg.name]
            ws = [w for w in ws if (w['type'] in atypes and not w['scalar']) or (w['scalar'] and ascalar) or (w['scalar'] and w['type'] in atypes)]
        if a.ops:
            ws = [w for w in ws if re.search(a.ops, w['op'])]
        if a.types:
            ws = [w for w in ws if re.search(a.types, ('s' if w['scalar'] else '') + w['type'])]
        if not ws:
            continue
        tc = time.time()
        try:
            text, ok, dropped, cmd, llpath = build.compile_ir(cfg, ws, prop)
        except RuntimeError as e:
            # the headers themselves do not compile in this configuration: nothing of this property can be explored there (C19 reports it)
            first = [l for l in str(e).split('\n') if 'error:' in l][:1]
            print('INCONCLUSIVE: configuration %s does not compile, %d wrappers not explored: %s' % (cfg.name, len(ws), (first or ['?'])[0][:200]), flush=True)
            compile_info.append({'config': cfg.name, 'flags': cfg.flags(), 'wrappers': 0, 'dropped': len(ws), 'error': str(e)[-600:]})
            for w in ws[:50]:
                dropped_all.append({'config': cfg.name, 'wrapper': w['name'], 'error': 'configuration does not compile: ' + (first or ['?'])[0][:150]})
            continue
        mod = llir.parse_module(text)
        compile_info.append({'config': cfg.name, 'flags': cfg.flags(), 'wrappers': len(ok), 'dropped': len(dropped), 'compile_s': round(time.time() - tc, 2)})
        for w, err in dropped:
            dropped_all.append({'config': cfg.name, 'wrapper': w['name'], 'error': err[:200]})
        per_cfg_counts[cfg.name] = len(ok)
        # translator validation on a sample of this configuration's wrappers (native g++ build vs interpreter in concrete mode)
        try:
            tv = time.time()
            vr = validate.validate(cfg, mod, ok, seed, per_wrapper=4, max_wrappers=40 if tier == 'quick' else 400)
            validation['cases'] += vr['cases']
            validation['skipped'] += vr['skipped']
            validation['mismatches'] += vr['mismatches']
            validation['wall_s'] += time.time() - tv
        except Exception as e:
            validation['errors'].append('%s: %s' % (cfg.name, str(e)[-300:]))
        for w in ok:
            h = fn_hash(mod, w['name'])
            key = (h, oracle_key(w), w['type'], w['K'], w['scalar'])
            if key in dedup:
                n_dedup += 1
                dedup[key]['also'].append(cfg.name)
                continue
            t = {'ll': llpath, 'meta': w, 'cfg': cfg.name, 'prop': prop, 'budget': budget, 'known': kf, 'ir_hash': h, 'also': []}
            dedup[key] = t
            tasks.append(t)
    if extra_tasks:
        tasks += extra_tasks
    print('[%s %s] %d configurations, %d wrappers to decide (%d identical-IR duplicates folded), %d dropped at compile time'
          % (prop, tier, len(compile_info), len(tasks), n_dedup, len(dropped_all)), flush=True)

    last = [time.time()]

    def progress(done, total, r):
        if a.verbose or r.get('status') not in ('ok', 'known'):
            print('  [%d/%d] %-44s %-8s %-13s %.1fs %s' % (done, total, r.get('name'), r.get('cfg'), r.get('status'), r.get('time', 0),
                                                           (r.get('detail') or '')[:100].replace('\n', ' ')), flush=True)
        elif time.time() - last[0] > 30:
            last[0] = time.time()
            print('  ... %d/%d' % (done, total), flush=True)

    results = runner.run_pool(tasks, nproc=a.jobs, hard_s=budget['hard_s'], progress=progress)
    bad_wrappers = {m['wrapper'] for m in validation['mismatches']}
    native_viol = []
    seen_nv = set()
    for m in validation['mismatches']:
        if (m['wrapper'], m['config']) in seen_nv or len(seen_nv) >= 12 or '_meta' not in m:
            continue
        seen_nv.add((m['wrapper'], m['config']))
        rp = validate.judge_mismatch(prop, m)
        if rp and rp.get('confirmed'):
            cfgo = configs.BY_NAME[m['config']]
            rec = {'kind': 'result', 'desc': 'native build violates the oracle on an input where it also disagrees with the encoded clang IR (compiler-dependent behaviour; found by translator validation)',
                   'inputs': rp['inputs'], 'rm': rp['rm'], 'replay': rp['path'], 'confirmed': True, 'detail': rp['detail'], 'solver': 'translator-validation',
                   'wrapper': m['wrapper'], 'config': m['config'], 'configs': [m['config']]}
            ent = known.match(kf, prop, m['_meta'], cfgo, 'result', rec['desc'])
            if ent is None:
                native_viol.append(rec)
    for m in validation['mismatches']:
        for k in [k for k in m if k.startswith('_')]:
            m.pop(k)
    for m in validation['mismatches'][:20]:
        print('ENCODING-MISMATCH (interpreter vs native build, verdicts for this wrapper are not trusted): %s' % m, flush=True)
    for e in validation['errors']:
        print('translator validation could not run: %s' % e, flush=True)
    for r in results:
        if r and r.get('name') in bad_wrappers and r.get('status') in ('ok', 'known'):
            r['status'] = 'undecided'
            r['detail'] = 'translator validation mismatch: verdict not trusted'
            r['undecided'] = [{'kind': 'all', 'desc': 'translator validation mismatch'}]
    for rec in native_viol:
        tasks.append({'meta': {'name': rec['wrapper']}, 'cfg': rec['config'], 'also': [], 'ir_hash': None})
        results.append({'name': rec['wrapper'], 'cfg': rec['config'], 'status': 'violation', 'violations': [rec], 'obligations': 0, 'time': 0.0})
    ev = dict(extra_evidence or {})
    ev['translator_validation'] = {'cases_compared': validation['cases'], 'skipped_ub_inputs': validation['skipped'], 'mismatches': validation['mismatches'][:50],
                                   'errors': validation['errors'], 'wall_s': round(validation['wall_s'], 1),
                                   'how': 'sample of wrappers per configuration, lattice + seeded random inputs, g++ -O2 native build vs interpreter in concrete mode'}
    ev['traces_validated_against_impl'] = validation['cases']
    return finish(prop, tier, seed, a, t0, tasks, results, compile_info, dropped_all, n_dedup, ladder, kf, ev)


def finish(prop, tier, seed, a, t0, tasks, results, compile_info, dropped_all, n_dedup, ladder, kf, extra_evidence=None):
    agg = {'obligations': 0, 'discharged': 0, 'trivial': 0, 'by_symmetry': 0, 'nontrivial': 0, 'undecided_obligations': 0}
    status = {}
    stime = {'z3': 0.0, 'cvc5': 0.0, 'kissat': 0.0}
    decided_by = {}
    violations, known_hits, unconfirmed, undecided, notenc, crashes = [], [], [], [], [], []
    funcs = []
    max_rss = 0
    intr = set()
    for t, r in zip(tasks, results):
        if r is None:
            continue
        status[r['status']] = status.get(r['status'], 0) + 1
        for k in ('obligations', 'discharged', 'trivial', 'by_symmetry', 'nontrivial'):
            agg[k] += r.get(k, 0) or 0
        agg['undecided_obligations'] += len(r.get('undecided') or [])
        for k, v in (r.get('solver_time') or {}).items():
            stime[k] = stime.get(k, 0) + v
        for k, v in (r.get('decided_by') or {}).items():
            decided_by[k] = decided_by.get(k, 0) + v
        max_rss = max(max_rss, r.get('rss_mb', 0) or 0)
        intr.update(r.get('intrinsics') or [])
        cfgs_ = [r.get('cfg')] + list(t.get('also', []))
        funcs.append({'wrapper': r['name'], 'configs': cfgs_, 'ir_hash': t.get('ir_hash'), 'status': r['status'],
                      'obligations': r.get('obligations', 0), 'paths': r.get('paths')})
        for v in r.get('violations') or []:
            violations.append(dict(v, wrapper=r['name'], config=r.get('cfg'), configs=cfgs_))
        for v in r.get('known_hits') or []:
            known_hits.append(dict(v, wrapper=r['name'], config=r.get('cfg')))
        for v in r.get('unconfirmed') or []:
            unconfirmed.append(dict(v, wrapper=r['name'], config=r.get('cfg')))
        if r['status'] == 'undecided':
            undecided.append({'wrapper': r['name'], 'config': r.get('cfg'), 'what': (r.get('undecided') or [{}])[:3], 'detail': r.get('detail')})
        if r['status'] in ('not-encodable', 'vacuous'):
            notenc.append({'wrapper': r['name'], 'config': r.get('cfg'), 'reason': r.get('detail')})
        if r['status'] == 'crash':
            crashes.append({'wrapper': r['name'], 'config': r.get('cfg'), 'detail': r.get('detail')})
    # ---- report
    seen_kf = {}
    for h in known_hits:
        seen_kf.setdefault(h['known_id'], []).append(h)
    for ent in kf:
        if ent['id'] in seen_kf:
            hs = seen_kf[ent['id']]
            print('KNOWN-FINDING: property=%s %s [%s; %d call site(s), e.g. %s in %s with inputs %s]'
                  % (prop, ent['what'], ent['id'], len(hs), hs[0]['wrapper'], hs[0]['config'], hs[0]['inputs']), flush=True)
    for v in violations:
        print('VIOLATION property=%s replay=%s' % (prop, v['replay']))
        print('    %s in %s: %s  inputs=%s rm=%s  %s' % (v['wrapper'], ','.join(v['configs']), v['desc'], v['inputs'], v['rm'],
                                                        '; '.join('%s: %s' % kv for kv in v['detail'].items())[:400]))
    wall = time.time() - t0
    print('[%s %s] obligations=%d discharged=%d (trivial %d, by lane symmetry %d) undecided=%d not-encodable=%d crashes=%d '
          'unconfirmed-cex=%d known=%d violations=%d wall=%.0fs solver=%s'
          % (prop, tier, agg['obligations'], agg['discharged'], agg['trivial'], agg['by_symmetry'], len(undecided), len(notenc), len(crashes),
             len(unconfirmed), len(known_hits), len(violations), wall, {k: round(v, 1) for k, v in stime.items()}), flush=True)
    if a.verbose:
        for x in notenc[:30]:
            print('   not-encodable', x)
        for x in crashes[:10]:
            print('   crash', x)
        for x in unconfirmed[:20]:
            print('   unconfirmed', x['wrapper'], x['config'], x['desc'], x['inputs'], x['detail'])
    if not a.no_evidence:
        write_evidence(prop, tier, seed, wall, agg, status, stime, decided_by, violations, known_hits, unconfirmed, undecided, notenc,
                       crashes, funcs, compile_info, dropped_all, n_dedup, ladder, max_rss, sorted(intr), tasks, results, extra_evidence)
    return 1 if violations else 0


ASSUMPTIONS = [
    'encoding is of the LLVM IR produced by clang++-14 -O1 (no -frounding-math, no -ffast-math); GCC code generation is covered only by native replay of counterexamples',
    'x86 instruction semantics are as modelled in avelverif/intrin.py (validated against this CPU by hwcheck)',
    'MXCSR: FTZ and DAZ are off, exception masks arbitrary; rounding mode is one symbolic value of {RNE, RTP, RTN, RTZ}',
    'NaN payloads follow the x86 propagation rule in IR operand order; oracles only test NaN-ness of arithmetic results',
    'libm functions that survive in the IR (ldexp, frexp, ilogb, logb, fmod, sqrt) behave as ISO C Annex F specifies (stubbed by the oracle semantics)',
    'NEON/SVE, AVX10, MSVC and ICPX preprocessor arms cannot be compiled here and are outside the claim',
]


def sample_of(t, r):
    return {'wrapper': r['name'], 'config': r.get('cfg'), 'cpp': t['meta']['line'], 'ir_hash': t.get('ir_hash'), 'status': r['status'],
            'paths': r.get('paths'), 'obligations': r.get('obligations'), 'discharged': r.get('discharged'), 'trivial': r.get('trivial'),
            'decided_by': r.get('decided_by'), 'time_s': round(r.get('time', 0), 2)}


def write_evidence(prop, tier, seed, wall, agg, status, stime, decided_by, violations, known_hits, unconfirmed, undecided, notenc, crashes,
                   funcs, compile_info, dropped_all, n_dedup, ladder, max_rss, intr, tasks, results, extra=None):
    os.makedirs(EVIDENCE, exist_ok=True)
    samples = []
    pairs = [(t, r) for t, r in zip(tasks, results) if r is not None and 'meta' in t]
    hard = sorted(pairs, key=lambda tr: -(tr[1].get('time') or 0))[:3]
    for t, r in hard + pairs[:3]:
        samples.append(sample_of(t, r))
    for v in (violations + known_hits)[:4]:
        samples.append({'counterexample': v['wrapper'], 'config': v['config'], 'inputs': v['inputs'], 'rm': v['rm'], 'confirmed_natively': v['confirmed'],
                        'detail': v['detail']})
    cov = {
        'evaluations': agg['obligations'],
        'distinct_nontrivial': agg['nontrivial'],
        'rule': 'one obligation per (configuration, wrapper, path, lane, class) where class is result-equals-oracle / no-poison / no-UB / MXCSR-unchanged; '
                'identical IR under several configurations is decided once; non-trivial = not closed by syntactic simplification, i.e. needed a solver call '
                '(distinct by formula identity)',
        'obligations': agg['obligations'],
        'discharged': agg['discharged'],
        'discharged_trivially': agg['trivial'],
        'discharged_by_lane_symmetry': agg['by_symmetry'],
        'undecided_wrappers': len(undecided),
        'not_encodable_wrappers': len(notenc),
        'machinery_crashes': len(crashes),
        'unconfirmed_counterexamples': len(unconfirmed),
        'known_findings_hit': sorted({h['known_id'] for h in known_hits}),
        'wrapper_status': status,
        'states': sum((f.get('paths') or 0) for f in funcs) or 1,
        'transitions': sum((r.get('steps') or 0) for r in results if r) or 1,
        'traces_validated_against_impl': len(violations) + len(known_hits) + len(unconfirmed) + int((extra or {}).get('traces_validated_against_impl', 0)),
        'samples': samples or [{'note': 'no wrapper in scope'}],
        'bounds': 'all input values of every encoded wrapper (no value bound); loops are unrolled by execution up to their own trip count; '
                  'template constants: quick = boundary set, thorough = all',
        'configurations': compile_info,
        'duplicates_folded': n_dedup,
        'functions_encoded': funcs[:4000],
        'not_compiling': dropped_all[:200],
        'undecided': undecided[:200],
        'not_encodable': notenc[:200],
        'crashes': crashes[:20],
        'unconfirmed': [{k: u[k] for k in ('wrapper', 'config', 'desc', 'inputs', 'detail')} for u in unconfirmed[:50]],
        'solver_time_s': {k: round(v, 2) for k, v in stime.items()},
        'decided_by': decided_by,
        'max_rss_mb': max_rss,
        'intrinsics_modelled_and_used': intr,
        'capabilities_ladder_mismatch': ladder,
        'explanation': 'bounded symbolic checking of the clang -O1 IR of generated wrappers over the public API; see DESIGN.md',
        'exhaustive': False,
    }
    if extra:
        ex2 = dict(extra)
        ex2.pop('traces_validated_against_impl', None)
        cov.update(ex2)
    ev = {'property_id': prop, 'tier': tier, 'seed': seed, 'level': 'model_checking', 'coverage': cov,
          'assumptions': ASSUMPTIONS, 'wall_s': round(wall, 1), 'violations': len(violations)}
    with open(os.path.join(EVIDENCE, prop + '.json'), 'w') as f:
        json.dump(ev, f, indent=1, default=str)


if __name__ == '__main__':
    sys.exit(main())
