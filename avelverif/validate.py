"""Translator validation: the same wrappers are compiled natively (g++ and clang++) and executed on this CPU; the symbolic
interpreter is run as a concrete evaluator on the IR of those wrappers with the same inputs; any difference is an encoding
bug (parser, executor or intrinsic model) and makes the check report itself as broken instead of trusting its verdicts."""
import os
import random
import re
import subprocess
import time

from . import build, gen, ops, harness, llir, replay, sym, fp, symex, intrin, sysconsts, configs
from .avtypes import VT
from .sym import M

FE = {'RNE': 'FE_TONEAREST', 'RTP': 'FE_UPWARD', 'RTN': 'FE_DOWNWARD', 'RTZ': 'FE_TOWARDZERO'}
RMS = {'RNE': fp.RNE, 'RTP': fp.RTP, 'RTN': fp.RTN, 'RTZ': fp.RTZ}


def int_lattice(w):
    vals = [0, 1, 2, 3, M(w), M(w) - 1, 1 << (w - 1), (1 << (w - 1)) - 1, (1 << (w - 1)) + 1, 0x5555555555555555 & M(w), 0xAAAAAAAAAAAAAAAA & M(w),
            0x0F0F0F0F0F0F0F0F & M(w), 0x8000000080000000 & M(w), 0x00000000FFFFFFFF & M(w), 0x0000000100000000 & M(w), 7, 10, 100 & M(w)]
    for k in range(0, w, max(1, w // 8)):
        vals += [(1 << k) & M(w), ((1 << k) - 1) & M(w)]
    return vals


def fp_lattice(w):
    if w == 32:
        return [0, 0x80000000, 0x3F800000, 0xBF800000, 0x3F000000, 0x7F800000, 0xFF800000, 0x7FC00000, 0xFFC00000, 0x7FA00000, 0xFF800001, 1, 0x80000001,
                0x007FFFFF, 0x00800000, 0x7F7FFFFF, 0xFF7FFFFF, 0x4B000000, 0x4B000001, 0x4AFFFFFF, 0xCB000000, 0x3EFFFFFF, 0x3F000001, 0x3FC00000, 0x40200000,
                0xC0200000, 0x4F000000, 0xCF000000, 0x5F000000, 0x33800000, 0x3F7FFFFF, 0xBEFFFFFF, 0x40490FDB, 0x00000100]
    return [0, 1 << 63, 0x3FF0000000000000, 0xBFF0000000000000, 0x3FE0000000000000, 0x7FF0000000000000, 0xFFF0000000000000, 0x7FF8000000000000,
            0xFFF8000000000000, 0x7FF4000000000000, 0xFFF0000000000001, 1, (1 << 63) | 1, 0x000FFFFFFFFFFFFF, 0x0010000000000000, 0x7FEFFFFFFFFFFFFF,
            0xFFEFFFFFFFFFFFFF, 0x4330000000000000, 0x4330000000000001, 0x432FFFFFFFFFFFFF, 0xC330000000000000, 0x3FDFFFFFFFFFFFFF, 0x3FE0000000000001,
            0x3FF8000000000000, 0x4004000000000000, 0xC004000000000000, 0x41E0000000000000, 0xC1E0000000000000, 0x43E0000000000000, 0x3CB0000000000000,
            0x3FEFFFFFFFFFFFFF, 0xBFDFFFFFFFFFFFFF, 0x400921FB54442D18, 0x0000000000010000]


def gen_inputs(o, T, K, rnd, count):
    """-> list of (inputs per arg, rm name) satisfying the operation's documented preconditions"""
    S = VT(T.n, T.bits, 'i')
    out = []
    tries = 0
    while len(out) < count and tries < count * 40:
        tries += 1
        ins = []
        for k in o.args:
            if k in 'vwx':
                AT = T if k == 'v' else S
                lat = fp_lattice(AT.bits) if AT.kind == 'f' else int_lattice(AT.bits)
                lanes = []
                for _ in range(AT.n):
                    r = rnd.random()
                    if r < 0.55:
                        lanes.append(rnd.choice(lat))
                    elif r < 0.7 and AT.kind != 'f':
                        lanes.append(rnd.randrange(0, AT.bits + 1))        # plausible shift amounts / small numbers
                    else:
                        lanes.append(rnd.getrandbits(AT.bits))
                ins.append(lanes)
            elif k == 'm':
                ins.append([rnd.random() < 0.5 for _ in range(T.n)])
            elif k == 's':
                ins.append(rnd.choice(int_lattice(T.bits)) if rnd.random() < 0.5 else rnd.getrandbits(T.bits))
            elif k == 'L':
                ins.append(rnd.choice([0, 1, T.bits // 2, T.bits - 1, T.bits, rnd.randrange(0, T.bits + 1)]) if o.pre else
                           rnd.choice([0, 1, T.bits, T.bits + 3, M(64), (1 << 63), rnd.getrandbits(64)]))
            elif k == 'U':
                ins.append(rnd.choice([0, 1, T.n, T.n + 1, rnd.getrandbits(32)]))
            elif k == 'b':
                ins.append(rnd.random() < 0.5)
        kw = {'K': K} if K is not None else {}
        ok = True
        if o.pre:
            ok = all(sym.sb(c) is True for c in o.pre(T, *ins))
        if ok and o.lane_pre:
            # native code must not trap: keep every lane inside the domain
            ok = all(sym.sb(o.lane_pre(T, i, *ins)) is True for i in range(T.n if not isinstance(ins[0], int) else 1))
        if not ok:
            continue
        rm = rnd.choice(['RNE', 'RNE', 'RTP', 'RTN', 'RTZ']) if (T.kind == 'f' and o.rm == 'sym') else 'RNE'
        out.append((ins, rm))
    return out


def arg_bytes(o, T, fn, ins):
    S = VT(T.n, T.bits, 'i')
    bts = []
    for i, k in enumerate(o.args):
        aty = fn.args[i][1]
        if k in 'vwx':
            AT = T if k == 'v' else S
            bts.append(replay.ir_bytes(harness.pack_lanes(ins[i], AT.bits, aty), aty))
        elif k == 'm':
            bts.append(replay.ir_bytes(harness.pack_mask(ins[i], T.bits, aty), aty))
        elif k == 'b':
            bts.append([1 if ins[i] else 0])
        else:
            bts.append(replay.ir_bytes([(ins[i], False)], aty))
    return bts


def concrete_run(mod, meta, ins, rmname):
    """-> (bytes of the result as the ABI lays it out, poisoned?, obligations violated concretely)"""
    o = ops.BY_NAME[meta['op']]
    T = harness.type_of(meta)
    S = VT(T.n, T.bits, 'i')
    fn = mod.fns[meta['name']]
    ex = symex.Executor(mod, intrin.Intrinsics(), assumptions=[])
    st = symex.State()
    st.rm = RMS[rmname]
    rc = {'RNE': 0, 'RTN': 1, 'RTP': 2, 'RTZ': 3}[rmname]
    st.mxcsr = 0x1F80 | (rc << 13)
    st.extra['mxcsr0'] = st.mxcsr
    args = []
    for i, k in enumerate(o.args):
        aty = fn.args[i][1]
        if k in 'vwx':
            AT = T if k == 'v' else S
            args.append(harness.pack_lanes(ins[i], AT.bits, aty))
        elif k == 'm':
            args.append(harness.pack_mask(ins[i], T.bits, aty))
        elif k == 'b':
            args.append([(1 if ins[i] else 0, False)])
        else:
            args.append([(ins[i], False)])
    finals = ex.run(meta['name'], args, st)
    if len(finals) != 1:
        raise symex.NotEncodable('concrete run forked into %d paths' % len(finals))
    f = finals[0]
    bad = [cat for cat, b, info, pcs in f.obls if sym.sb(b) is not False]
    if f.ret is None:
        return None, False, bad
    vals = []
    pois = False
    for v, p in f.ret:
        v = sym.nsimp(v)
        if not isinstance(v, int):
            raise symex.NotEncodable('concrete run left a symbolic result (%s)' % str(v)[:80])
        if sym.sb(p) is not False:
            pois = True
        vals.append((v, False))
    return replay.ir_bytes(vals, fn.ret), pois, bad


def native_run(cfg, cases, outdir, cc='g++', opt='-O2'):
    """cases: list of (meta, [arg byte lists], rm).  -> dict index -> result bytes / 'SIGNAL'"""
    os.makedirs(outdir, exist_ok=True)
    lines = ['#include "verif_prelude.hpp"', '#include <cstdio>', '#include <cstring>', '#include <cfenv>']
    seen = set()
    for meta, _, _ in cases:
        if meta['name'] not in seen:
            seen.add(meta['name'])
            lines.append(meta['line'])
    lines.append('int main() {')
    for ci, (meta, bts, rm) in enumerate(cases):
        lines.append('  {')
        names = []
        for i, (pt, bs) in enumerate(zip(meta['params'], bts)):
            lines.append('    static const unsigned char b%d[] = {%s}; %s a%d; std::memcpy(&a%d, b%d, sizeof a%d < sizeof b%d ? sizeof a%d : sizeof b%d);'
                         % (i, ','.join(map(str, bs)), pt, i, i, i, i, i, i, i))
            names.append('a%d' % i)
        # the call goes through a volatile function pointer: GCC treats the (noinline but visible) wrapper as const and would
        # otherwise move it across fesetround even under -frounding-math
        lines.append('    decltype(&%s) volatile fp_ = &%s;' % (meta['name'], meta['name']))
        lines.append('    std::fesetround(%s); __asm__ __volatile__("" ::: "memory");' % FE[rm])
        lines.append('    auto r = fp_(%s);' % ', '.join(names))
        lines.append('    __asm__ __volatile__("" ::: "memory"); std::fesetround(FE_TONEAREST);')
        lines.append('    unsigned char out[sizeof r]; std::memcpy(out, &r, sizeof r); std::printf("R %d ", %d); for (unsigned i = 0; i < sizeof r; ++i) std::printf("%%02x", out[i]); std::printf("\\n");' % (ci, ci))
        lines.append('  }')
    lines.append('  return 0;\n}')
    src = os.path.join(outdir, 'validate_%s.cpp' % cfg.name)
    open(src, 'w').write('\n'.join(lines) + '\n')
    exe = os.path.join(outdir, 'validate_%s.%s' % (cfg.name, cc.replace('+', 'x')))
    cmd = [cc] + cfg.flags() + [opt, '-w', '-frounding-math' if cc == 'g++' else '-w', '-I' + os.path.join(build.HERE, 'cxx'), '-I' + build.repo_include(), src, '-o', exe]
    r = subprocess.run(cmd, stdout=subprocess.PIPE, stderr=subprocess.PIPE, universal_newlines=True)
    if r.returncode != 0:
        raise RuntimeError('validation program does not compile: ' + r.stderr[-800:])
    rr = subprocess.run([exe], stdout=subprocess.PIPE, stderr=subprocess.PIPE, universal_newlines=True, timeout=300)
    out = {}
    for m in re.finditer(r'R (\d+) ([0-9a-f]*)', rr.stdout):
        h = m.group(2)
        out[int(m.group(1))] = [int(h[i:i + 2], 16) for i in range(0, len(h), 2)]
    try:
        os.unlink(exe)
    except OSError:
        pass
    return out, rr.returncode


def float_result(o):
    return o.cmp in ('fp_arith', 'fp_num', 'oneof', 'oneof_nan')


def same(o, T, rty, a, b):
    """native vs interpreter result bytes; NaN payloads of arithmetic results are not compared (x86 rule vs operand order)"""
    if a == b:
        return True
    if T.kind == 'f' and o.ret in ('v', 's') and float_result(o):
        w = T.bits // 8
        for i in range(0, len(a), w):
            x = int.from_bytes(bytes(a[i:i + w]), 'little')
            y = int.from_bytes(bytes(b[i:i + w]), 'little')
            if x != y and not (fp.is_nan_bits(x, T.bits) and fp.is_nan_bits(y, T.bits)):
                return False
        return True
    return False


def validate(cfg, mod, wrappers, seed, per_wrapper=4, max_wrappers=48):
    """-> dict(cases, mismatches [..], skipped)"""
    rnd = random.Random(seed * 7919 + hash(cfg.name) % 1000)
    ops.CTX.consts = sysconsts.load()
    cand = [w for w in wrappers if not w.get('mem') and not w.get('denom') and w['rtype'] != 'void']
    rnd.shuffle(cand)
    # spread over operations
    byop = {}
    for w in cand:
        byop.setdefault(w['op'], []).append(w)
    chosen = []
    while len(chosen) < max_wrappers and any(byop.values()):
        for k in list(byop):
            if byop[k]:
                chosen.append(byop[k].pop())
                if len(chosen) >= max_wrappers:
                    break
    cases = []
    skipped = 0
    expect = []
    for w in chosen:
        o = ops.BY_NAME[w['op']]
        T = harness.type_of(w)
        fn = mod.fns[w['name']]
        for ins, rm in gen_inputs(o, T, w.get('K'), rnd, per_wrapper):
            try:
                ops.CTX.rm = RMS[rm]
                got, pois, bad = concrete_run(mod, w, ins, rm)
            except symex.NotEncodable:
                skipped += 1
                continue
            if pois or bad or got is None:
                skipped += 1        # undefined behaviour on this input: nothing to compare
                continue
            cases.append((w, arg_bytes(o, T, fn, ins), rm))
            expect.append((got, ins))
    res = {'cases': len(cases), 'mismatches': [], 'skipped': skipped, 'wrappers': len(chosen)}
    if not cases:
        return res
    outdir = os.path.join(build.BUILD, 'validate')
    for cc, opt in (('g++', '-O2'),):
        native, code = native_run(cfg, cases, outdir, cc, opt)
        for ci, (w, bts, rm) in enumerate(cases):
            if ci not in native:
                res['mismatches'].append({'wrapper': w['name'], 'config': cfg.name, 'problem': 'no native result (crash? exit %d)' % code})
                continue
            o = ops.BY_NAME[w['op']]
            T = harness.type_of(w)
            if not same(o, T, None, native[ci], expect[ci][0]):
                res['mismatches'].append({'wrapper': w['name'], 'config': cfg.name, 'rm': rm, 'inputs': replay.fmt(expect[ci][1]),
                                          'native_' + cc: bytes(native[ci]).hex(), 'interpreter': bytes(expect[ci][0]).hex(),
                                          '_meta': w, '_ins': expect[ci][1], '_argtypes': [a_[1] for a_ in mod.fns[w['name']].args], '_rty': mod.fns[w['name']].ret})
    return res


def model_of(o, T, ins, rm):
    """oracle-level inputs -> the name->value model replay.replay_cex expects"""
    m = {'rm': rm}
    for i, k in enumerate(o.args):
        if k in 'vwx':
            for j, v in enumerate(ins[i]):
                m['a%d_%d' % (i, j)] = int(v)
        elif k == 'm':
            for j, v in enumerate(ins[i]):
                m['m%d_%d' % (i, j)] = bool(v)
        elif k in 'sLU':
            m['s%d' % i] = int(ins[i])
        elif k == 'b':
            m['b%d' % i] = bool(ins[i])
    return m


def judge_mismatch(prop, mm):
    """A mismatch between the native GCC build and the encoded clang IR is either an encoder defect or compiler-dependent behaviour of the
    library (e.g. GCC keeps fma(a, b, -0.0) where clang folds it to a multiply).  Replay the input against the real headers with both
    compilers and compare with the *oracle*: when a native build violates the property, that is a violation whatever the encoder thinks."""
    w = mm['_meta']
    o = ops.BY_NAME[w['op']]
    if o.oracle is None:
        return None
    T = harness.type_of(w)
    cfg = configs.BY_NAME[mm['config']]
    try:
        ops.CTX.rm = RMS[mm['rm']]
        rp = replay.replay_cex(prop, w, cfg, mm['_argtypes'], mm['_rty'], model_of(o, T, mm['_ins'], mm['rm']), 'result')
    except Exception as e:
        return {'confirmed': False, 'detail': {'error': str(e)[-200:]}, 'path': '', 'inputs': [mm['inputs']], 'rm': mm['rm']}
    return rp
