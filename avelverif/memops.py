"""C08 / C09: loads, stores, gathers, scatters, array round trips.  Wrapper generation and harness.

The caller's memory is one external object per pointer argument with fully symbolic contents; its base address is
only as aligned as the API requires.  Every access made by the code is logged by the executor; C09 turns the log into
footprint obligations, C08 compares results / final memory with the oracle."""
import z3
from . import sym, symex, intrin, llir, harness, ops, avtypes
from .avtypes import VT
from .sym import M, b_and, b_or, b_not


class MemOp:
    def __init__(self, name, kind, params, ret, expr, consts=None, cls='uif', props=('C08', 'C09'), aligned=False, lanes32_64=False):
        self.name = name
        self.kind = kind          # load store gather scatter to_array from_array mask_from_array
        self.params = params      # list of kinds: p (const scalar*), P (scalar*), v, x (index vector), U, A (array ptr), B (bool array ptr)
        self.ret = ret            # 'v' 'm' or None
        self.expr = expr
        self.consts = consts
        self.cls = cls
        self.props = props
        self.aligned = aligned
        self.lanes32_64 = lanes32_64


def k_count(T, tier):
    n = T.n
    return sorted({0, 1 % (n + 1), n // 2, max(n - 1, 0), n}) if tier == 'quick' else list(range(n + 1))


MEMOPS = [
    MemOp('load_n', 'load', 'pU', 'v', 'avel::load<{V}>({0}, {1})'),
    MemOp('aligned_load_n', 'load', 'pU', 'v', 'avel::aligned_load<{V}>({0}, {1})', aligned=True),
    MemOp('load_k', 'load', 'p', 'v', 'avel::load<{V}, {K}>({0})', consts=k_count),
    MemOp('aligned_load_k', 'load', 'p', 'v', 'avel::aligned_load<{V}, {K}>({0})', consts=k_count, aligned=True),
    MemOp('store_n', 'store', 'PvU', None, 'avel::store({0}, {1}, {2})'),
    MemOp('aligned_store_n', 'store', 'PvU', None, 'avel::aligned_store({0}, {1}, {2})', aligned=True),
    MemOp('store_k', 'store', 'Pv', None, 'avel::store<{K}>({0}, {1})', consts=k_count),
    MemOp('aligned_store_k', 'store', 'Pv', None, 'avel::aligned_store<{K}>({0}, {1})', consts=k_count, aligned=True),
    MemOp('load_default', 'load', 'p', 'v', 'avel::load<{V}>({0})'),
    MemOp('aligned_load_default', 'load', 'p', 'v', 'avel::aligned_load<{V}>({0})', aligned=True),
    MemOp('store_default', 'store', 'Pv', None, 'avel::store({0}, {1})'),
    MemOp('aligned_store_default', 'store', 'Pv', None, 'avel::aligned_store({0}, {1})', aligned=True),
    MemOp('gather_default', 'gather', 'px', 'v', 'avel::gather<{V}>({0}, {1})', lanes32_64=True),
    MemOp('scatter_default', 'scatter', 'Pvx', None, 'avel::scatter({0}, {1}, {2})', lanes32_64=True),
    MemOp('gather_n', 'gather', 'pxU', 'v', 'avel::gather<{V}>({0}, {1}, {2})', lanes32_64=True),
    MemOp('gather_k', 'gather', 'px', 'v', 'avel::gather<{V}, {K}>({0}, {1})', consts=k_count, lanes32_64=True),
    MemOp('scatter_n', 'scatter', 'PvxU', None, 'avel::scatter({0}, {1}, {2}, {3})', lanes32_64=True),
    MemOp('scatter_k', 'scatter', 'Pvx', None, 'avel::scatter<{K}>({0}, {1}, {2})', consts=k_count, lanes32_64=True),
    MemOp('to_array', 'to_array', 'vA', None, '*{1} = avel::to_array({0})', props=('C08',)),
    MemOp('from_array', 'from_array', 'a', 'v', '{V}{{*{0}}}', props=('C08',)),
    MemOp('mask_from_array', 'mask_from_array', 'B', 'm', '{M}{{*{0}}}', props=('C03',)),
]
BY_NAME = {m.name: m for m in MEMOPS}


def wrappers_for(cfg, props, tier, types=None):
    out = []
    props = set(props)
    for mo in MEMOPS:
        if not (props & set(mo.props)):
            continue
        for T in avtypes.ALL_TYPES:
            if T.kind not in mo.cls or not avtypes.available(T, cfg.macros):
                continue
            if mo.lanes32_64 and T.bits < 32:
                continue
            if types and T.name not in types:
                continue
            for K in (mo.consts(T, tier) if mo.consts else [None]):
                out.append(make(mo, T, K))
    return out


def make(mo, T, K):
    I = VT(T.n, T.bits, 'i')
    decls, exprs = [], []
    for i, k in enumerate(mo.params):
        nm = 'a%d' % i
        if k == 'p':
            decls.append('const %s* %s' % (T.ctype, nm)); exprs.append(nm)
        elif k == 'P':
            decls.append('%s* %s' % (T.ctype, nm)); exprs.append(nm)
        elif k == 'v':
            decls.append('avel::%s::primitive %s' % (T.name, nm)); exprs.append('avel::%s{%s}' % (T.name, nm))
        elif k == 'x':
            decls.append('avel::%s::primitive %s' % (I.name, nm)); exprs.append('avel::%s{%s}' % (I.name, nm))
        elif k == 'U':
            decls.append('std::uint32_t %s' % nm); exprs.append(nm)
        elif k == 'A':
            decls.append('avel::%s* %s' % (T.arr, nm)); exprs.append(nm)
        elif k == 'a':
            decls.append('const avel::%s* %s' % (T.arr, nm)); exprs.append(nm)
        elif k == 'B':
            decls.append('const avel::%s* %s' % (T.arrb, nm)); exprs.append(nm)
    expr = mo.expr.format(*exprs, K=K, V='avel::' + T.name, M='avel::' + T.mask)
    nm = 'w_%s__%s%s' % (T.name, mo.name, '' if K is None else '__k%d' % K)
    if mo.ret == 'v':
        rty = 'avel::%s::primitive' % T.name
        body = 'return avel::decay(avel::%s(%s));' % (T.name, expr)
    elif mo.ret == 'm':
        rty = 'avel::%s::primitive' % T.mask
        body = 'return avel::decay(avel::%s(%s));' % (T.mask, expr)
    else:
        rty = 'void'
        body = expr + ';'
    line = 'VW %s %s(%s) { %s }' % (rty, nm, ', '.join(decls), body)
    return {'name': nm, 'line': line, 'op': mo.name, 'type': T.name, 'scalar': False, 'K': K, 'mem': True,
            'params': [d.rsplit(' ', 1)[0] for d in decls], 'rtype': rty}


# ------------------------------------------------------------------------------------------------ harness
def final_bytes(ex, final, oid, off, n):
    """read n bytes at concrete/symbolic offset from the final state of object oid (no logging)"""
    st = symex.State()
    st.objs = final.objs
    st.pc = list(final.pc)
    cells = ex.read_bytes(st, symex.Ptr(oid, off), n, 'oracle')
    return cells


def build_case(mod, meta, prop, replayable=False, concrete=None):
    """concrete: dict with python values for n / lanes / idx / mem(bytes function) for concrete evaluation"""
    mo = BY_NAME[meta['op']]
    T = harness.type_of(meta)
    I = VT(T.n, T.bits, 'i')
    fn = mod.fns[meta['name']]
    case = harness.Case()
    rm, rm_asm = harness.make_rm('sym') if T.kind == 'f' and False else harness.make_rm(None)
    case.rm = rm
    ops.CTX.rm = rm
    ex = symex.Executor(mod, intrin.Intrinsics(), assumptions=[])
    st, mx_asm = harness.init_state(ex, rm)
    case.assumptions += mx_asm
    ex.assumptions = case.assumptions
    eb = T.bits // 8
    N = T.n
    args = []
    mem = None
    n_sym = None
    v_lanes = None
    idx = None
    for i, k in enumerate(mo.params):
        aty = fn.args[i][1]
        if k in 'pPAaB':
            align = eb
            if mo.aligned:
                align = max(eb, T.total // 8 if T.n > 1 else eb)
            if k in 'Aa':
                align = eb
            if k == 'B':
                align = 1
            o = ex.new_obj(st, 'array', None, align, 'p%d' % i, writable=(k in 'PA'), external=True)
            mem = o
            case.mem_arr0 = o.arr
            args.append([(symex.Ptr(o.id, 0), False)])
            case.inputs.append({'kind': 'ptr', 'vars': [], 'w': 64, 'ir': aty, 'obj': o.id})
        elif k == 'v':
            v_lanes = [z3.BitVec('a%d_%d' % (i, j), T.bits) for j in range(N)]
            args.append(harness.pack_lanes(v_lanes, T.bits, aty))
            case.inputs.append({'kind': 'v', 'vars': v_lanes, 'w': T.bits, 'ir': aty})
        elif k == 'x':
            idx = [z3.BitVec('a%d_%d' % (i, j), I.bits) for j in range(N)]
            args.append(harness.pack_lanes(idx, I.bits, aty))
            case.inputs.append({'kind': 'x', 'vars': idx, 'w': I.bits, 'ir': aty})
        elif k == 'U':
            n_sym = z3.BitVec('s%d' % i, 32)
            args.append([(n_sym, False)])
            case.inputs.append({'kind': 'U', 'vars': [n_sym], 'w': 32, 'ir': aty})
    if meta.get('K') is not None:
        cnt = meta['K']                      # compile-time count (python int)
    elif n_sym is not None:
        cnt = z3.If(z3.ULT(n_sym, N), n_sym, z3.BitVecVal(N, 32))     # min(n, width)
    else:
        cnt = N
    cnt64 = sym.zext(cnt, 32, 64) if not isinstance(cnt, int) else cnt

    def active(i):
        return sym.ult(i, cnt, 32) if not isinstance(cnt, int) else (i < cnt)

    def mem0(off, nbytes):
        """initial contents at byte offset off (int or 64-bit term) -> value of nbytes*8 bits"""
        bs = [(z3.Select(case.mem_arr0, sym.bv(sym.add(off, j, 64), 64)), 8) for j in range(nbytes)]
        return sym.concat(bs)[0]

    if mo.kind == 'mask_from_array':
        for j in range(N):
            b = z3.Select(case.mem_arr0, z3.BitVecVal(j, 64))
            case.assumptions.append(z3.ULE(b, 1))     # object representation of bool
    if replayable and idx is not None:
        # second-stage query: keep active indices inside a small window so that the model can be mapped natively
        for j in range(N):
            lo, hi = -512, 512
            case.assumptions.append(z3.Implies(sym.bz(active(j)), z3.And(idx[j] >= lo, idx[j] < hi)))
            far = 1 << 20
            case.assumptions.append(z3.Implies(z3.Not(sym.bz(active(j))), z3.Or(idx[j] >= far, idx[j] <= -far)))
    finals = ex.run(meta['name'], args, st)
    case.stats = {'paths': len(finals), 'steps': ex.total_steps, 'intrinsics': sorted(ex.intrinsics_used),
                  'callees': sorted(ex.called), 'feasibility_queries': ex.feas_queries}
    rty = fn.ret
    pcs = []
    want_c08 = prop in ('C08', 'C03')
    want_c09 = prop == 'C09'
    for fi, f in enumerate(finals):
        pc = b_and(*f.pc)
        pcs.append(pc)
        tag = 'path%d' % fi
        for cat, bad, info, pcsnap in f.obls:
            case.obligations.append({'kind': cat, 'formula': b_and(b_and(*pcsnap), bad), 'desc': info, 'group': tag + ':ub'})
        if f.mxcsr is not st.extra['mxcsr0']:
            case.obligations.append({'kind': 'fpenv:mxcsr-changed', 'group': tag + ':fpenv', 'desc': 'MXCSR control bits differ at return',
                                     'formula': b_and(pc, sym.ne(sym.and_(f.mxcsr, 0xFFC0, 32), sym.and_(st.extra['mxcsr0'], 0xFFC0, 32), 32))})
        # ---------------- footprint (C09; writes also for C08: "and nothing else")
        for e in f.log:
            if e['obj'] != mem.id:
                continue
            if not (want_c09 or want_c08):
                continue      # C08 too: a call that faults on valid input does not move the lanes it was asked to move
            off, ln = e['off'], e['n']
            g = b_and(b_and(*e['pc']), e['guard'])
            A = mem.align
            if mo.kind in ('load', 'store'):
                limit = sym.mul(cnt64, eb, 64)
                if e['kind'] == 'W':
                    inside = b_and(sym.sle(0, off, 64), sym.sle(sym.add(off, ln, 64), limit, 64), sym.sle(off, N * eb, 64))
                else:
                    # reads / may-fault footprints are observable only through faults: bytes sharing an A-aligned block
                    # with an addressed byte are on the same page as that byte (p is A-aligned, A divides the page size)
                    if isinstance(limit, int):
                        up = (limit + A - 1) // A * A
                    else:
                        up = (limit + (A - 1)) & z3.BitVecVal((~(A - 1)) & M(64), 64)
                    inside = b_and(sym.ne(limit, 0, 64), sym.sle(0, off, 64), sym.sle(sym.add(off, ln, 64), up, 64), sym.sle(off, N * eb, 64))
            elif mo.kind in ('gather', 'scatter'):
                alts = []
                for j in range(N):
                    base = sym.mul(sym.sext(idx[j], I.bits, 64), eb, 64)
                    d = sym.sub(off, base, 64)
                    alts.append(b_and(active(j), sym.ule(d, eb - ln, 64) if ln <= eb else False))
                inside = b_or(*alts)
            else:
                size = N * eb if mo.kind != 'mask_from_array' else N
                inside = b_and(sym.sle(0, off, 64), sym.sle(sym.add(off, ln, 64), size, 64))
            what = {'R': 'read', 'W': 'write', 'F': 'possibly faulting access'}[e['kind']]
            case.obligations.append({'kind': 'footprint:' + e['kind'], 'group': tag + ':footprint',
                                     'formula': b_and(pc, g, b_not(inside)),
                                     'desc': '%s of %d byte(s) by %s outside the addressed elements' % (what, ln, e['what']),
                                     'access': {'off': off, 'n': ln}})
        if not want_c08:
            continue
        # ---------------- values (C08)
        if mo.kind in ('load', 'gather', 'from_array'):
            got, pp = harness.unpack_lanes(f.ret, rty, T.bits, N)
            for j in range(N):
                if mo.kind == 'gather':
                    src = mem0(sym.mul(sym.sext(idx[j], I.bits, 64), eb, 64), eb)
                else:
                    src = mem0(j * eb, eb)
                e = sym.ite(active(j), src, 0, T.bits) if mo.kind != 'from_array' else src
                case.obligations.append({'kind': 'result', 'group': tag + ':result', 'lane': j,
                                         'formula': b_and(pc, b_not(pp[j]), sym.ne(got[j], e, T.bits)), 'desc': 'lane %d of %s' % (j, meta['name'])})
                case.obligations.append({'kind': 'ub:poison-returned', 'group': tag + ':ub', 'lane': j, 'formula': b_and(pc, pp[j]), 'desc': 'lane %d is poison' % j})
        elif mo.kind == 'mask_from_array':
            bools = [z3.Select(case.mem_arr0, z3.BitVecVal(j, 64)) != 0 for j in range(N)]
            class _O:
                ret = 'm'; lane_pre = None; cmp = 'bits'
            case.obligations += harness.result_obligations(_O, T, meta, rty, f.ret, bools, [], pc, tag)
        elif mo.kind in ('store', 'to_array'):
            total = N * eb
            for k in range(total):
                fin = final_bytes(ex, f, mem.id, k, 1)[0]
                j = k // eb
                vb = sym.extract(v_lanes[j], 8 * (k % eb) + 7, 8 * (k % eb), T.bits)
                init = z3.Select(case.mem_arr0, z3.BitVecVal(k, 64))
                e = sym.ite(active(j), vb, init, 8) if mo.kind == 'store' else vb
                case.obligations.append({'kind': 'memory', 'group': tag + ':memory', 'lane': None,
                                         'formula': b_and(pc, b_or(fin[1], sym.ne(fin[0], e, 8))), 'desc': 'byte %d of the destination after %s' % (k, meta['name'])})
        elif mo.kind == 'scatter':
            # footprint obligations (above) guarantee nothing outside the active elements is written; here every byte of
            # every active element must hold the byte of one of the active lanes that address it
            bases = [sym.mul(sym.sext(idx[j], I.bits, 64), eb, 64) for j in range(N)]
            for j in range(N):
                if active(j) is False:
                    continue
                for d in range(eb):
                    a = sym.add(bases[j], d, 64)
                    fin = final_bytes(ex, f, mem.id, a, 1)[0]
                    alts = []
                    for i2 in range(N):
                        dd = sym.sub(a, bases[i2], 64)
                        for d2 in range(eb):
                            vb = sym.extract(v_lanes[i2], 8 * d2 + 7, 8 * d2, T.bits)
                            alts.append(b_and(active(i2), sym.eq(dd, d2, 64), sym.eq(fin[0], vb, 8)))
                    case.obligations.append({'kind': 'memory', 'group': tag + ':memory', 'lane': None,
                                             'formula': b_and(pc, active(j), b_or(fin[1], b_not(b_or(*alts)))),
                                             'desc': 'byte %d of the element addressed by lane %d after %s' % (d, j, meta['name'])})
    case.vacuity = b_or(*pcs) if pcs else False
    case.ret_type = rty
    case.finals = finals
    case.mem_obj = mem.id
    return case
