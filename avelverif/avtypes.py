"""AVEL type descriptors."""

CT = {('u', 8): 'std::uint8_t', ('i', 8): 'std::int8_t', ('u', 16): 'std::uint16_t', ('i', 16): 'std::int16_t',
      ('u', 32): 'std::uint32_t', ('i', 32): 'std::int32_t', ('u', 64): 'std::uint64_t', ('i', 64): 'std::int64_t',
      ('f', 32): 'float', ('f', 64): 'double'}


class VT:
    def __init__(self, n, bits, kind):
        self.n = n
        self.bits = bits
        self.kind = kind           # 'u' 'i' 'f'
        self.signed = kind == 'i'
        self.name = 'vec%dx%d%s' % (n, bits, kind)
        self.mask = 'mask%dx%d%s' % (n, bits, kind)
        self.arr = 'arr%dx%d%s' % (n, bits, kind)
        self.arrb = 'arr%dxb' % n
        self.ctype = CT[(kind, bits)]
        self.total = n * bits

    def other(self, kind):
        return VT(self.n, self.bits, kind)

    def __repr__(self):
        return self.name


ALL_TYPES = []
for total in (0, 128, 256, 512):
    for bits in (8, 16, 32, 64):
        n = 1 if total == 0 else total // bits
        for kind in 'ui':
            ALL_TYPES.append(VT(n, bits, kind))
    for bits in (32, 64):
        n = 1 if total == 0 else total // bits
        ALL_TYPES.append(VT(n, bits, 'f'))
BY_NAME = {t.name: t for t in ALL_TYPES}


def available(t, macros):
    """does vector type t exist under the (closed) macro set?"""
    if t.n == 1:
        return True
    tot = t.total
    if tot == 128:
        return 'AVEL_SSE2' in macros
    if tot == 256:
        return 'AVEL_AVX2' in macros
    if tot == 512:
        if t.bits in (8, 16):
            return 'AVEL_AVX512BW' in macros
        return 'AVEL_AVX512F' in macros
    return False


IMPLIES = [
    ('AVEL_GFNI', ['AVEL_AVX512F']), ('AVEL_AVX512VBMI2', ['AVEL_AVX512F']), ('AVEL_AVX512VBMI', ['AVEL_AVX512F']),
    ('AVEL_AVX512BITALG', ['AVEL_AVX512F']), ('AVEL_AVX512VPOPCNTDQ', ['AVEL_AVX512F']), ('AVEL_AVX512CD', ['AVEL_AVX512F']),
    ('AVEL_AVX512VL', ['AVEL_AVX512F']), ('AVEL_AVX512DQ', ['AVEL_AVX512F']), ('AVEL_AVX512BW', ['AVEL_AVX512F']),
    ('AVEL_AVX512F', ['AVEL_AVX2', 'AVEL_FMA']), ('AVEL_FMA', ['AVEL_AVX']), ('AVEL_AVX2', ['AVEL_AVX']),
    ('AVEL_AVX', ['AVEL_SSE4_2']), ('AVEL_SSE4_2', ['AVEL_SSE4_1', 'AVEL_POPCNT']), ('AVEL_SSE4_1', ['AVEL_SSSE3']),
    ('AVEL_SSSE3', ['AVEL_SSE3']), ('AVEL_SSE3', ['AVEL_SSE2']), ('AVEL_SSE2', ['AVEL_SSE']),
    ('AVEL_SSE', ['AVEL_PREFETCH', 'AVEL_X86']), ('AVEL_BMI2', ['AVEL_X86']), ('AVEL_BMI', ['AVEL_X86']),
    ('AVEL_LZCNT', ['AVEL_X86']), ('AVEL_POPCNT', ['AVEL_X86']), ('AVEL_PREFETCH', ['AVEL_X86']),
]


def close(macros):
    """closure of a user macro set under the ladder of Capabilities.hpp (cross-checked against the header by
    configs.check_ladder on every run)"""
    s = set(macros)
    changed = True
    while changed:
        changed = False
        for a, bs in IMPLIES:
            if a in s:
                for b in bs:
                    if b not in s:
                        s.add(b)
                        changed = True
    return s
