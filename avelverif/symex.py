"""Symbolic executor for the parsed IR.

Values: a register value is a list of lanes; a lane is (v, p) with v an int / z3 BitVec / Ptr and p the
poison flag (bool / z3 Bool).  Aggregates (first-class structs/arrays) are Agg objects.
Control flow forks without feasibility queries (constant conditions are folded); every path ends in a
Final record carrying its path condition, return value, memory, access log and UB obligations.
"""
import z3
from . import llir, sym, fp
from .sym import M, bv, b_or, b_and, b_not


class NotEncodable(Exception):
    pass


class _ForkOnSelect(Exception):
    def __init__(self, cond):
        self.cond = cond


class Ptr:
    __slots__ = ('obj', 'off')

    def __init__(self, obj, off):
        self.obj = obj
        self.off = off

    def __repr__(self):
        return 'Ptr(%s,%s)' % (self.obj, self.off)


class Agg:
    __slots__ = ('elems',)

    def __init__(self, elems):
        self.elems = elems


class Obj:
    """memory object.  kind 'bytes': fixed size, python list of byte cells; kind 'array': unbounded z3 array
    indexed by 64-bit offset (external memory handed in by the harness)."""

    def __init__(self, oid, kind, size=None, align=1, name='', writable=True, external=False):
        self.id = oid
        self.kind = kind
        self.size = size
        self.align = align
        self.name = name
        self.writable = writable
        self.external = external
        self.data = None     # bytes: list of None | (v,p) | ('ptr', Ptr, k)
        self.arr = None      # array: z3 Array(BV64 -> BV8)
        self.overlay = None  # array: concrete-offset unguarded writes (fast path while wlog is empty)
        self.wlog = None     # array: ordered list of (off, cells, guard) once a symbolic or guarded write happened
        self.base = None     # symbolic address of offset 0 (for ptrtoint), or int
        self.bound = None    # array objects: symbolic size in bytes (None = unbounded)
        self.freed = False
        self.live = True

    def clone(self):
        o = Obj(self.id, self.kind, self.size, self.align, self.name, self.writable, self.external)
        o.data = list(self.data) if self.data is not None else None
        o.arr = self.arr
        o.overlay = dict(self.overlay) if self.overlay is not None else None
        o.wlog = list(self.wlog) if self.wlog is not None else None
        o.base = self.base
        o.live = self.live
        o.bound = self.bound
        o.freed = self.freed
        return o


class Frame:
    __slots__ = ('fn', 'lab', 'idx', 'env', 'pred', 'dst', 'allocas')

    def __init__(self, fn, env):
        self.fn = fn
        self.lab = fn.order[0]
        self.idx = 0
        self.env = env
        self.pred = None
        self.dst = None
        self.allocas = []

    def clone(self):
        f = Frame.__new__(Frame)
        f.fn = self.fn; f.lab = self.lab; f.idx = self.idx; f.env = dict(self.env)
        f.pred = self.pred; f.dst = self.dst; f.allocas = list(self.allocas)
        return f


class State:
    def __init__(self):
        self.frames = []
        self.pc = []
        self.objs = {}
        self.owned = set()      # ids of objs this state may mutate in place
        self.obls = []          # (category, bad_cond, info, pc_snapshot)
        self.log = []           # access log entries (dict)
        self.mxcsr = None
        self.rm = None
        self.steps = 0
        self.visits = {}
        self.extra = {}         # harness scratch (e.g. allocator model)

    def clone(self):
        s = State()
        s.frames = [f.clone() for f in self.frames]
        s.pc = list(self.pc)
        s.objs = dict(self.objs)
        s.owned = set()
        self.owned = set()      # both sides copy-on-write from now on
        s.obls = list(self.obls)
        s.log = list(self.log)
        s.mxcsr = self.mxcsr
        s.rm = self.rm
        s.steps = self.steps
        s.visits = dict(self.visits)
        s.extra = dict(self.extra)
        return s

    def wobj(self, oid):
        if oid not in self.owned:
            self.objs[oid] = self.objs[oid].clone()
            self.owned.add(oid)
        return self.objs[oid]

    def oblige(self, cat, bad, info=''):
        if bad is False:
            return
        self.obls.append((cat, bad, info, tuple(self.pc)))


class Final:
    def __init__(self, st, ret):
        self.pc = st.pc
        self.ret = ret
        self.objs = st.objs
        self.obls = st.obls
        self.log = st.log
        self.mxcsr = st.mxcsr
        self.extra = st.extra
        self.steps = st.steps


def zero_of(ty):
    k = ty.kind
    if k == 'vec':
        return [(0, False)] * ty.n
    if k in ('int', 'fp', 'ptr'):
        return [(0, False)]
    if k == 'struct':
        return Agg([zero_of(f) for f in ty.fields])
    if k == 'arr':
        return Agg([zero_of(ty.elem) for _ in range(ty.n)])
    raise NotEncodable('zero of %r' % ty)


class Executor:
    MAX_PATHS = 800
    MAX_STEPS = 400000      # instructions per path
    MAX_VISITS = 100000     # visits of one block on one path (unwinding bound; lowered by harnesses that know the trip count)
    LOOP_CHECK = 6          # after this many visits of one block on a path, symbolic branches are feasibility-checked

    def __init__(self, mod, intrinsics, assumptions=(), stubs=None):
        self.mod = mod
        self.intr = intrinsics
        self.assumptions = list(assumptions)
        self.stubs = stubs or {}
        self.next_obj = [1]
        self.global_objs = {}
        self.finals = []
        self.called = set()
        self.intrinsics_used = set()
        self.total_steps = 0
        self.feas_queries = 0

    # ------------------------------------------------------------------ objects
    def new_obj(self, st, kind, size=None, align=1, name='', writable=True, external=False):
        oid = self.next_obj[0]
        self.next_obj[0] += 1
        o = Obj(oid, kind, size, align, name, writable, external)
        if kind == 'bytes':
            o.data = [None] * size
        else:
            o.arr = z3.Array('mem_%s' % (name or oid), z3.BitVecSort(64), z3.BitVecSort(8))
            o.overlay = {}
            o.wlog = []
        st.objs[oid] = o
        st.owned.add(oid)
        return o

    def global_ptr(self, st, name):
        if name in self.global_objs:
            oid = self.global_objs[name]
            if oid not in st.objs:
                raise NotEncodable('global object lost')
            return Ptr(oid, 0)
        g = self.mod.globals.get(name)
        if g is None:
            if name in self.mod.fns or name in self.mod.decls:
                return ('fn', name)
            raise NotEncodable('unknown global @%s' % name)
        if g.init is None:
            raise NotEncodable('external global @%s' % name)
        size = llir.alloc_size(g.ty)
        o = self.new_obj(st, 'bytes', size, g.align or llir.abi_align(g.ty), '@' + name, writable=not g.const)
        cells = self.serialize(st, g.ty, g.init)
        o.data[:len(cells)] = cells
        self.global_objs[name] = o.id
        return Ptr(o.id, 0)

    def serialize(self, st, ty, init):
        """constant initializer -> list of byte cells"""
        size = llir.alloc_size(ty)
        k = init[0]
        if k == 'zero':
            return [(0, False)] * size
        if k == 'undef' or k == 'poison':
            return [None] * size
        if k == 'bytes':
            return [(b, False) for b in init[1]] + [(0, False)] * (size - len(init[1]))
        if ty.kind in ('int', 'fp'):
            if k == 'ci':
                n = llir.store_size(ty)
                return [((init[1] >> (8 * i)) & 255, False) for i in range(n)] + [None] * (size - n)
        if ty.kind == 'ptr':
            if k == 'null':
                return [(0, False)] * 8
            v = self.const_operand(st, ty, init)[0][0]
            if isinstance(v, Ptr):
                return [(('ptr', v, i), False) for i in range(8)]
            raise NotEncodable('pointer initializer %r' % (init,))
        if k == 'agg':
            out = []
            if ty.kind == 'struct':
                offs, tot = llir.struct_layout(ty)
                for (ety, ev), off in zip(init[1], offs):
                    out += [None] * (off - len(out))
                    out += self.serialize(st, ety, ev)
                out += [None] * (tot - len(out))
                return out
            if ty.kind == 'arr':
                for ety, ev in init[1]:
                    out += self.serialize(st, ety, ev)
                return out
            if ty.kind == 'vec':
                w = ty.lbits()
                if w % 8:
                    raise NotEncodable('sub-byte vector constant in memory')
                for ety, ev in init[1]:
                    out += self.serialize(st, ety, ev)[:w // 8]
                return out + [None] * (size - len(out))
        raise NotEncodable('initializer %r for %r' % (init[0], ty))

    # ------------------------------------------------------------------ operands
    def const_operand(self, st, ty, op):
        k = op[0]
        if k == 'ci':
            return [(op[1], False)]
        if k == 'zero':
            return zero_of(ty)
        if k == 'null':
            return [(0, False)]
        if k == 'undef':
            if ty.kind in ('struct', 'arr'):
                return zero_of(ty)
            return [(sym.fresh('undef', ty.lbits()), False) for _ in range(ty.lanes())]
        if k == 'poison':
            if ty.kind in ('struct', 'arr'):
                return zero_of(ty)
            return [(0, True)] * ty.lanes()
        if k == 'agg':
            if ty.kind == 'vec':
                out = []
                for ety, ev in op[1]:
                    out += self.const_operand(st, ety, ev)
                return out
            return Agg([self.const_operand(st, ety, ev) for ety, ev in op[1]])
        if k == 'g':
            p = self.global_ptr(st, op[1])
            return [(p, False)]
        if k == 'ce_cast':
            _, cop, sty, v, dty = op
            val = self.const_operand(st, sty, v)
            return self.cast(st, cop, sty, dty, val)
        if k == 'ce_gep':
            _, bty, pty, pv, idx = op
            base = self.const_operand(st, pty, pv)
            idxv = [(ity, self.const_operand(st, ity, iv)) for ity, iv in idx]
            return self.gep(st, bty, base, idxv)
        if k == 'ce_bin':
            _, bop, aty, a, b = op
            return self.binop(st, bop, (), aty, self.const_operand(st, aty, a), self.const_operand(st, aty, b))
        raise NotEncodable('operand kind %r' % (k,))

    def val(self, st, fr, ty, op):
        if op[0] == 'r':
            try:
                return fr.env[op[1]]
            except KeyError:
                raise NotEncodable('use of undefined register %%%s in %s' % (op[1], fr.fn.name))
        return self.const_operand(st, ty, op)

    # ------------------------------------------------------------------ memory
    def resolve(self, st, p):
        """pointer lane value -> Ptr or raise"""
        if isinstance(p, Ptr):
            return p
        # raw integer: try to match object bases
        p = sym.nsimp(p)
        mentioning = []
        for oid, o in st.objs.items():
            if o.base is None:
                continue
            d = sym.nsimp(sym.sub(p, o.base, 64))
            if isinstance(d, int):
                return Ptr(oid, d)
            if not isinstance(o.base, int) and not _mentions(d, o.base):
                return Ptr(oid, d)
            if not isinstance(o.base, int) and not isinstance(p, int) and _mentions(p, o.base):
                mentioning.append((oid, d))
        if len(mentioning) == 1:
            # an address computed from exactly one object's base (e.g. rounded up by std::align): an offset into that object
            return Ptr(mentioning[0][0], mentioning[0][1])
        if isinstance(p, int) and p == 0:
            return Ptr(0, 0)
        raise NotEncodable('cannot resolve pointer %s' % (p,))

    def read_bytes(self, st, ptr, n, what='load'):
        """-> list of n byte cells as (v,p)"""
        if ptr.obj == 0:
            st.oblige('ub:null-deref', True, what)
            return [(sym.fresh('nullrd', 8), False) for _ in range(n)]
        o = st.objs[ptr.obj]
        off = ptr.off
        if not o.live:
            st.oblige('ub:use-after-free', True, what)
        if o.kind == 'array':
            if o.bound is not None:
                st.oblige('ub:out-of-bounds', b_not(b_and(sym.ule(off, o.bound, 64), sym.ule(sym.add(off, n, 64), o.bound, 64))),
                          '%s of %d bytes outside the %s block' % (what, n, o.name))
            return [self.array_byte(o, sym.add(off, k, 64)) for k in range(n)]
        # bytes
        if isinstance(off, int):
            so = sym.sgn(off, 64)
            if so < 0 or so + n > o.size:
                st.oblige('ub:out-of-bounds', True, '%s of %d bytes at offset %d of %s (size %d)' % (what, n, so, o.name, o.size))
                return [(sym.fresh('oob', 8), False) for _ in range(n)]
            out = []
            for k in range(n):
                c = o.data[so + k]
                if c is None:
                    c = (sym.fresh('uninit', 8), False)
                    # remember the choice so repeated reads agree
                    o2 = st.wobj(ptr.obj)
                    o2.data[so + k] = c
                out.append(c)
            return out
        # symbolic offset into a fixed-size object: ite chain over all in-bounds positions
        if o.size > 4096:
            raise NotEncodable('symbolic index into large object')
        st.oblige('ub:out-of-bounds', z3.UGT(off, z3.BitVecVal(o.size - n, 64)), '%s with symbolic offset into %s' % (what, o.name))
        out = []
        for k in range(n):
            acc = None
            for pos in range(o.size - n, -1, -1):
                c = o.data[pos + k]
                if c is None:
                    c = (sym.fresh('uninit', 8), False)
                    st.wobj(ptr.obj).data[pos + k] = c
                if isinstance(c[0], tuple):
                    raise NotEncodable('symbolic read of pointer bytes')
                if acc is None:
                    acc = c
                else:
                    cond = off == z3.BitVecVal(pos, 64)
                    acc = (sym.ite(cond, c[0], acc[0], 8), sym.b_ite(cond, c[1], acc[1]))
            out.append(acc)
        return out

    def array_byte(self, o, a):
        """current byte of an external object at offset a (int or 64-bit term): initial contents overlaid by the writes so far"""
        if isinstance(a, int):
            a &= M(64)
            if a in o.overlay:
                v, p = o.overlay[a]
            else:
                v, p = z3.Select(o.arr, z3.BitVecVal(a, 64)), False
        else:
            v, p = z3.Select(o.arr, a), False
            for ka, (kv, kp) in o.overlay.items():
                c = a == z3.BitVecVal(ka, 64)
                v, p = sym.ite(c, kv, v, 8), sym.b_ite(c, kp, p)
        for woff, cells, g in o.wlog:
            if isinstance(cells, tuple) and cells[0] == 'havoc':
                _, ln, harr = cells
                d = sym.sub(a, woff, 64)
                c = b_and(g, sym.ult(d, ln, 64))
                v, p = sym.ite(c, z3.Select(harr, bv(a, 64)), v, 8), sym.b_ite(c, False, p)
                continue
            n = len(cells)
            d = sym.nsimp(sym.sub(a, woff, 64))
            if isinstance(d, int):
                if d < n:
                    cv, cp = cells[d]
                    v, p = sym.ite(g, cv, v, 8), sym.b_ite(g, cp, p)
                continue
            for k in range(n):
                c = b_and(g, d == z3.BitVecVal(k, 64))
                v, p = sym.ite(c, cells[k][0], v, 8), sym.b_ite(c, cells[k][1], p)
        return (v, p)

    def write_bytes(self, st, ptr, cells, guard=True, what='store'):
        """cells: list of (v,p); guard: bool cond under which the write happens"""
        n = len(cells)
        if ptr.obj == 0:
            st.oblige('ub:null-deref', guard, what)
            return
        o = st.wobj(ptr.obj)
        off = ptr.off
        if not o.live:
            st.oblige('ub:use-after-free', guard, what)
        if not o.writable:
            st.oblige('ub:write-to-constant', guard, what)
            return
        if o.kind == 'array':
            for c in cells:
                if isinstance(c[0], tuple):
                    raise NotEncodable('pointer stored to caller memory')
            if o.bound is not None:
                st.oblige('ub:out-of-bounds', b_and(guard, b_not(b_and(sym.ule(off, o.bound, 64), sym.ule(sym.add(off, n, 64), o.bound, 64)))),
                          '%s of %d bytes outside the %s block' % (what, n, o.name))
            if isinstance(off, int) and guard is True and not o.wlog:
                for k, c in enumerate(cells):
                    o.overlay[(off + k) & M(64)] = c
                return
            o.wlog.append((off, list(cells), guard))
            return
        if isinstance(off, int):
            so = sym.sgn(off, 64)
            if so < 0 or so + n > o.size:
                st.oblige('ub:out-of-bounds', guard, '%s of %d bytes at offset %d of %s (size %d)' % (what, n, so, o.name, o.size))
                return
            for k, c in enumerate(cells):
                if guard is True:
                    o.data[so + k] = c
                else:
                    old = o.data[so + k]
                    if old is None:
                        old = (sym.fresh('uninit', 8), False)
                    if isinstance(old[0], tuple) or isinstance(c[0], tuple):
                        raise NotEncodable('guarded write of pointer bytes')
                    o.data[so + k] = (sym.ite(guard, c[0], old[0], 8), sym.b_ite(guard, c[1], old[1]))
            return
        if o.size > 4096:
            raise NotEncodable('symbolic index into large object')
        st.oblige('ub:out-of-bounds', b_and(guard, z3.UGT(off, z3.BitVecVal(o.size - n, 64))), '%s with symbolic offset into %s' % (what, o.name))
        for pos in range(0, o.size - n + 1):
            cond = b_and(guard, off == z3.BitVecVal(pos, 64))
            for k, c in enumerate(cells):
                old = o.data[pos + k]
                if old is None:
                    old = (sym.fresh('uninit', 8), False)
                if isinstance(old[0], tuple) or isinstance(c[0], tuple):
                    raise NotEncodable('symbolic write of pointer bytes')
                o.data[pos + k] = (sym.ite(cond, c[0], old[0], 8), sym.b_ite(cond, c[1], old[1]))

    def check_align(self, st, ptr, align, guard, what):
        if not align or align <= 1 or ptr.obj == 0:
            return
        o = st.objs[ptr.obj]
        off = ptr.off
        if o.align % align == 0:
            if isinstance(off, int):
                if off % align:
                    st.oblige('ub:misaligned', guard, '%s needs align %d at offset %d of %s' % (what, align, off, o.name))
            else:
                st.oblige('ub:misaligned', b_and(guard, (off & (align - 1)) != 0), '%s needs align %d in %s' % (what, align, o.name))
        else:
            # base alignment weaker than required: the object's address itself is only o.align-aligned
            if isinstance(o.base, int):
                return
            st.oblige('ub:misaligned', guard, '%s needs align %d but %s is only %d-aligned' % (what, align, o.name, o.align))

    def log_access(self, st, kind, ptr, n, guard=True, fault_all=False, what=''):
        if ptr.obj == 0:
            return
        o = st.objs[ptr.obj]
        if o.external and n:
            st.log.append({'kind': kind, 'obj': ptr.obj, 'off': ptr.off, 'n': n, 'guard': guard,
                           'pc': tuple(st.pc), 'what': what})

    def cells_of(self, ty, val):
        """register value -> byte cells"""
        if isinstance(val, Agg):
            out = []
            if ty.kind == 'struct':
                offs, tot = llir.struct_layout(ty)
                for f, v, off in zip(ty.fields, val.elems, offs):
                    out += [None] * (off - len(out))
                    out += self.cells_of(f, v)
                out += [None] * (tot - len(out))
            else:
                for v in val.elems:
                    c = self.cells_of(ty.elem, v)
                    out += c + [None] * (llir.alloc_size(ty.elem) - len(c))
            return [(c if c is not None else (0, False)) for c in out]
        w = ty.lbits()
        out = []
        if ty.scal().kind == 'ptr':
            for v, p in val:
                if isinstance(v, Ptr):
                    out += [(('ptr', v, i), p) for i in range(8)]
                else:
                    out += [(sym.extract(v, 8 * i + 7, 8 * i, 64), p) for i in range(8)]
            return out
        if w % 8 == 0:
            for v, p in val:
                for i in range(w // 8):
                    out.append((sym.extract(v, 8 * i + 7, 8 * i, w), p))
            return out
        # sub-byte lanes (i1 vectors, i1): pack little-endian
        tot = w * len(val)
        allv, _ = sym.concat([(v, w) for v, _ in val])
        pp = b_or(*[p for _, p in val])
        nb = (tot + 7) // 8
        if tot % 8:
            allv = sym.zext(allv, tot, nb * 8)
        return [(sym.extract(allv, 8 * i + 7, 8 * i, nb * 8), pp) for i in range(nb)]

    def value_of(self, ty, cells):
        """byte cells -> register value"""
        if ty.kind == 'struct':
            offs, tot = llir.struct_layout(ty)
            return Agg([self.value_of(f, cells[o:o + llir.store_size(f)]) for f, o in zip(ty.fields, offs)])
        if ty.kind == 'arr':
            s = llir.alloc_size(ty.elem)
            return Agg([self.value_of(ty.elem, cells[i * s:(i + 1) * s]) for i in range(ty.n)])
        w = ty.lbits()
        n = ty.lanes()
        if ty.scal().kind == 'ptr':
            out = []
            for i in range(n):
                cs = cells[8 * i:8 * i + 8]
                c0 = cs[0][0]
                if isinstance(c0, tuple) and c0[0] == 'ptr':
                    if all(isinstance(c[0], tuple) and c[0][1] is c0[1] and c[0][2] == k for k, c in enumerate(cs)):
                        out.append((c0[1], b_or(*[c[1] for c in cs])))
                        continue
                    raise NotEncodable('torn pointer load')
                v, _ = sym.concat([(c[0], 8) for c in cs])
                out.append((v, b_or(*[c[1] for c in cs])))
            return out
        for c in cells:
            if isinstance(c[0], tuple):
                raise NotEncodable('integer load of pointer bytes')
        if w % 8 == 0:
            k = w // 8
            out = []
            for i in range(n):
                cs = cells[k * i:k * i + k]
                v, _ = sym.concat([(c[0], 8) for c in cs])
                out.append((v, b_or(*[c[1] for c in cs])))
            return out
        tot = w * n
        allv, tw = sym.concat([(c[0], 8) for c in cells])
        pp = b_or(*[c[1] for c in cells])
        return [(sym.extract(allv, w * i + w - 1, w * i, tw), pp) for i in range(n)]

    def load(self, st, ty, pv, align, what='load'):
        v, p = pv[0]
        if p is not False:
            st.oblige('ub:poison-address', p, what)
        ptr = self.resolve(st, v)
        n = llir.store_size(ty)
        self.check_align(st, ptr, align, True, what)
        self.log_access(st, 'R', ptr, n, True, True, what)
        return self.value_of(ty, self.read_bytes(st, ptr, n, what))

    def store(self, st, ty, val, pv, align, what='store'):
        v, p = pv[0]
        if p is not False:
            st.oblige('ub:poison-address', p, what)
        ptr = self.resolve(st, v)
        cells = self.cells_of(ty, val)
        self.check_align(st, ptr, align, True, what)
        self.log_access(st, 'W', ptr, len(cells), True, True, what)
        o = st.objs.get(ptr.obj)
        if o is not None and o.external:
            pp = b_or(*[c[1] for c in cells])
            st.oblige('ub:poison-stored-to-caller-memory', pp, what)
        self.write_bytes(st, ptr, cells, True, what)

    # ------------------------------------------------------------------ arithmetic
    def binop(self, st, op, flags, ty, a, b):
        w = ty.lbits()
        out = []
        if op in ('fadd', 'fsub', 'fmul', 'fdiv', 'frem'):
            for (x, px), (y, py) in zip(a, b):
                out.append((fp.binop(op, st.rm, x, y, w), b_or(px, py)))
            return out
        for (x, px), (y, py) in zip(a, b):
            p = b_or(px, py)
            if op == 'add':
                r = sym.add(x, y, w)
                if 'nsw' in flags:
                    p = b_or(p, _add_sov(x, y, w))
                if 'nuw' in flags:
                    p = b_or(p, sym.ult(r, x, w))
            elif op == 'sub':
                r = sym.sub(x, y, w)
                if 'nsw' in flags:
                    p = b_or(p, _sub_sov(x, y, w))
                if 'nuw' in flags:
                    p = b_or(p, sym.ult(x, y, w))
            elif op == 'mul':
                r = sym.mul(x, y, w)
                if 'nsw' in flags:
                    p = b_or(p, _mul_ov(x, y, w, True))
                if 'nuw' in flags:
                    p = b_or(p, _mul_ov(x, y, w, False))
            elif op == 'and':
                r = sym.and_(x, y, w)
            elif op == 'or':
                r = sym.or_(x, y, w)
            elif op == 'xor':
                r = sym.xor(x, y, w)
            elif op in ('shl', 'lshr', 'ashr'):
                big = sym.uge(y, w, w)
                p = b_or(p, big)
                if op == 'shl':
                    r = sym.shl(x, y, w)
                    if 'nuw' in flags:
                        p = b_or(p, sym.ne(sym.lshr(r, y, w), x, w))
                    if 'nsw' in flags:
                        p = b_or(p, sym.ne(sym.ashr(r, y, w), x, w))
                elif op == 'lshr':
                    r = sym.lshr(x, y, w)
                    if 'exact' in flags:
                        p = b_or(p, sym.ne(sym.shl(r, y, w), x, w))
                else:
                    r = sym.ashr(x, y, w)
                    if 'exact' in flags:
                        p = b_or(p, sym.ne(sym.shl(r, y, w), x, w))
                if big is True:
                    r = 0
            elif op in ('udiv', 'urem', 'sdiv', 'srem'):
                st.oblige('ub:division-by-zero', b_or(py, sym.eq(y, 0, w)), op)
                if op[0] == 's':
                    st.oblige('ub:signed-division-overflow', b_and(sym.eq(x, 1 << (w - 1), w), sym.eq(y, M(w), w)), op)
                r = getattr(sym, op)(x, y, w)
                if 'exact' in flags:
                    p = b_or(p, sym.ne(sym.mul(r, y, w), x, w))
            else:
                raise NotEncodable('binop ' + op)
            out.append((r, p))
        return out

    def cast(self, st, op, sty, dty, val):
        w1, w2 = sty.lbits(), dty.lbits()
        if op == 'bitcast':
            if dty.scal().kind == 'ptr' or sty.scal().kind == 'ptr':
                return val
            if sty.lanes() == dty.lanes():
                return val
            vs = sym.regroup([v for v, _ in val], w1, w2)
            ps = [p for _, p in val]
            n1, n2 = len(val), len(vs)
            if all(p is False for p in ps):
                return [(v, False) for v in vs]
            out = []
            for i, v in enumerate(vs):
                if n2 > n1:
                    out.append((v, ps[i * n1 // n2]))
                else:
                    k = n1 // n2
                    out.append((v, b_or(*ps[i * k:(i + 1) * k])))
            return out
        if op == 'zext':
            return [(sym.zext(v, w1, w2), p) for v, p in val]
        if op == 'sext':
            return [(sym.sext(v, w1, w2), p) for v, p in val]
        if op == 'trunc':
            return [(sym.trunc(v, w1, w2), p) for v, p in val]
        if op == 'ptrtoint':
            out = []
            for v, p in val:
                if isinstance(v, Ptr):
                    if v.obj == 0:
                        a = v.off
                    else:
                        o = st.objs[v.obj]
                        if o.base is None:
                            o = st.wobj(v.obj)
                            o.base = self.fresh_base(st, o)
                        a = sym.add(o.base, v.off, 64)
                else:
                    a = v
                out.append((sym.trunc(a, 64, w2) if w2 < 64 else a, p))
            return out
        if op == 'inttoptr':
            return [(sym.zext(v, w1, 64) if w1 < 64 else v, p) for v, p in val]
        if op in ('sitofp', 'uitofp'):
            return [(fp.si_to_fp(st.rm, v, w1, w2, op == 'sitofp'), p) for v, p in val]
        if op in ('fptosi', 'fptoui'):
            out = []
            for v, p in val:
                r, ok = fp.fp_to_int(v, w1, w2, op == 'fptosi')
                out.append((r, b_or(p, b_not(ok))))
            return out
        if op == 'fpext':
            return [(fp.fpext(v, w1, w2), p) for v, p in val]
        if op == 'fptrunc':
            return [(fp.fptrunc(st.rm, v, w1, w2), p) for v, p in val]
        raise NotEncodable('cast ' + op)

    def fresh_base(self, st, o):
        b = sym.fresh('base_%s' % (o.name or o.id), 64)
        # alignment and non-wrapping are assumptions about where the environment places objects
        self.assumptions.append((b & (o.align - 1)) == 0)
        self.assumptions.append(z3.UGE(b, 4096))
        size = o.size if o.size is not None else (1 << 40)
        self.assumptions.append(z3.ULE(b, (1 << 47) - size - 4096))
        return b

    def gep(self, st, bty, base, idxs):
        v, p = base[0]
        if len(base) != 1:
            raise NotEncodable('vector GEP')
        off = 0
        ty = bty
        first = True
        for ity, iv in idxs:
            i, pi = iv[0]
            p = b_or(p, pi)
            iw = ity.lbits()
            i64 = sym.sext(i, iw, 64) if iw < 64 else i
            if first:
                off = sym.add(off, sym.mul(i64, llir.alloc_size(ty), 64), 64)
                first = False
            elif ty.kind == 'struct':
                if not isinstance(i, int):
                    raise NotEncodable('symbolic struct index')
                offs, _ = llir.struct_layout(ty)
                off = sym.add(off, offs[i], 64)
                ty = ty.fields[i]
            elif ty.kind in ('arr', 'vec'):
                es = llir.alloc_size(ty.elem) if ty.kind == 'arr' else ty.lbits() // 8
                off = sym.add(off, sym.mul(i64, es, 64), 64)
                ty = ty.elem
            else:
                raise NotEncodable('GEP into %r' % ty)
        if isinstance(v, Ptr):
            return [(Ptr(v.obj, sym.add(v.off, off, 64)), p)]
        if isinstance(v, tuple):
            raise NotEncodable('GEP on function pointer')
        return [(sym.add(v, off, 64), p)]

    # ------------------------------------------------------------------ main loop
    def run(self, fname, args, init_state):
        fn = self.mod.fns[fname]
        st = init_state
        env = {}
        for (nm, ty, attrs), v in zip(fn.args, args):
            env[nm] = v
        st.frames = [Frame(fn, env)]
        work = [st]
        self.finals = []
        while work:
            st = work.pop()
            try:
                self.run_path(st, work)
            except z3.Z3Exception as e:
                raise NotEncodable('z3: %s' % e)
            if len(work) + len(self.finals) > self.MAX_PATHS:
                raise NotEncodable('path limit (%d) exceeded' % self.MAX_PATHS)
        return self.finals

    def feasible(self, st, cond):
        s = z3.Solver()
        s.set('timeout', 3000)
        s.add(*[sym.bz(a) for a in self.assumptions])
        s.add(*[sym.bz(c) for c in st.pc])
        s.add(sym.bz(cond))
        self.feas_queries += 1
        return s.check() != z3.unsat

    def branch(self, st, work, cond, lab_t, lab_f):
        """cond: bool or z3 Bool"""
        fr = st.frames[-1]
        c = sym.sb(cond)
        if isinstance(c, bool):
            self.goto(st, lab_t if c else lab_f)
            return
        c = sym.bz(cond)      # keep the raw term in the path condition (subterm sharing with the oracle matters)
        check = st.visits.get((fr.fn.name, fr.lab), 0) > self.LOOP_CHECK
        ft = ff = True
        if check:
            ft = self.feasible(st, c)
            ff = self.feasible(st, z3.Not(c)) if ft else True
        if ft and ff:
            st2 = st.clone()
            st2.pc.append(z3.Not(c))
            self.goto(st2, lab_f)
            work.append(st2)
            st.pc.append(c)
            self.goto(st, lab_t)
        elif ft:
            st.pc.append(c)
            self.goto(st, lab_t)
        else:
            st.pc.append(z3.Not(c))
            self.goto(st, lab_f)

    def goto(self, st, lab):
        fr = st.frames[-1]
        fr.pred = fr.lab
        fr.lab = lab
        fr.idx = 0
        key = (fr.fn.name, lab)
        st.visits[key] = st.visits.get(key, 0) + 1
        if st.visits[key] > self.MAX_VISITS:
            raise NotEncodable('step limit exceeded: block %s visited %d times on one path (unbounded loop?)' % (lab, st.visits[key]))
        # phis: parallel assignment
        blk = fr.fn.blocks[lab]
        new = {}
        k = 0
        for ins in blk:
            if ins.op != 'phi':
                break
            k += 1
            for l, v in ins.x:
                if l == fr.pred:
                    new[ins.dst] = self.val(st, fr, ins.ty, v)
                    break
            else:
                raise NotEncodable('phi without incoming edge from %s' % fr.pred)
        fr.env.update(new)
        fr.idx = k

    def run_path(self, st, work):
        while True:
            fr = st.frames[-1]
            blk = fr.fn.blocks[fr.lab]
            ins = blk[fr.idx]
            fr.idx += 1
            st.steps += 1
            self.total_steps += 1
            if st.steps > self.MAX_STEPS:
                raise NotEncodable('step limit exceeded on one path (unbounded loop?)')
            op = ins.op
            env = fr.env
            if op in llir.BINOPS:
                a = self.val(st, fr, ins.ty, ins.ops[0])
                b = self.val(st, fr, ins.ty, ins.ops[1])
                env[ins.dst] = self.binop(st, op, ins.flags, ins.ty, a, b)
            elif op == 'icmp':
                a = self.val(st, fr, ins.ty, ins.ops[0])
                b = self.val(st, fr, ins.ty, ins.ops[1])
                env[ins.dst] = self.icmp(st, ins.x, ins.ty, a, b)
            elif op == 'fcmp':
                a = self.val(st, fr, ins.ty, ins.ops[0])
                b = self.val(st, fr, ins.ty, ins.ops[1])
                w = ins.ty.lbits()
                env[ins.dst] = [(sym.b2bv(fp.fcmp(ins.x, x, y, w)), b_or(px, py)) for (x, px), (y, py) in zip(a, b)]
            elif op in llir.CASTS:
                v = self.val(st, fr, ins.x, ins.ops[0])
                env[ins.dst] = self.cast(st, op, ins.x, ins.ty, v)
            elif op == 'select':
                c = self.val(st, fr, ins.x, ins.ops[0])
                a = self.val(st, fr, ins.ty, ins.ops[1])
                b = self.val(st, fr, ins.ty, ins.ops[2])
                try:
                    env[ins.dst] = self.select(ins.ty, c, a, b)
                except _ForkOnSelect as fk:
                    # the two arms are pointers of different provenance (e.g. a block vs null): split the path on the condition
                    if len(a) != 1:
                        raise NotEncodable('vector select between pointers into different objects')
                    cond = fk.cond
                    st2 = st.clone()
                    st2.pc.append(z3.Not(cond))
                    st2.frames[-1].env[ins.dst] = [(b[0][0], b_or(c[0][1], b[0][1]))]
                    work.append(st2)
                    st.pc.append(cond)
                    fr = st.frames[-1]
                    env = fr.env
                    env[ins.dst] = [(a[0][0], b_or(c[0][1], a[0][1]))]
            elif op == 'shufflevector':
                ty, idx = ins.x
                a = self.val(st, fr, ty, ins.ops[0])
                b = self.val(st, fr, ty, ins.ops[1]) if ins.ops[1][0] not in ('undef', 'poison') else None
                n = ty.n
                out = []
                for i in idx:
                    if i is None:
                        out.append((sym.fresh('undef', ty.lbits()), False))
                    elif i < n:
                        out.append(a[i])
                    elif b is None:
                        out.append((sym.fresh('undef', ty.lbits()), False))
                    else:
                        out.append(b[i - n])
                env[ins.dst] = out
            elif op == 'insertelement':
                a = list(self.val(st, fr, ins.ty, ins.ops[0]))
                e = self.val(st, fr, ins.ty.elem, ins.ops[1])
                i, pi = self.val(st, fr, ins.x, ins.ops[2])[0]
                i = sym.nsimp(i)
                if isinstance(i, int):
                    if i < len(a):
                        a[i] = e[0]
                    else:
                        a = [(0, True)] * len(a)
                else:
                    w = ins.ty.lbits()
                    iw = ins.x.lbits()
                    a = [(sym.ite(i == k, e[0][0], v, w), sym.b_ite(i == k, e[0][1], p)) for k, (v, p) in enumerate(a)]
                if pi is not False:
                    a = [(v, b_or(p, pi)) for v, p in a]
                env[ins.dst] = a
            elif op == 'extractelement':
                vty, ity = ins.x
                a = self.val(st, fr, vty, ins.ops[0])
                i, pi = self.val(st, fr, ity, ins.ops[1])[0]
                i = sym.nsimp(i)
                if isinstance(i, int):
                    r = a[i] if i < len(a) else (0, True)
                else:
                    w = vty.lbits()
                    r = a[-1]
                    for k in range(len(a) - 2, -1, -1):
                        r = (sym.ite(i == k, a[k][0], r[0], w), sym.b_ite(i == k, a[k][1], r[1]))
                    r = (r[0], b_or(r[1], z3.UGE(i, len(a))))
                env[ins.dst] = [(r[0], b_or(r[1], pi))]
            elif op == 'extractvalue':
                a = self.val(st, fr, ins.ty, ins.ops[0])
                for i in ins.x:
                    a = a.elems[i]
                env[ins.dst] = a
            elif op == 'insertvalue':
                ety, idx = ins.x
                a = self.val(st, fr, ins.ty, ins.ops[0])
                e = self.val(st, fr, ety, ins.ops[1])
                env[ins.dst] = _insertvalue(a, idx, e)
            elif op == 'fneg':
                w = ins.ty.lbits()
                a = self.val(st, fr, ins.ty, ins.ops[0])
                env[ins.dst] = [(sym.xor(v, 1 << (w - 1), w), p) for v, p in a]
            elif op == 'freeze':
                a = self.val(st, fr, ins.ty, ins.ops[0])
                w = ins.ty.lbits()
                env[ins.dst] = [(v if p is False else sym.ite(p, sym.fresh('frz', w), v, w), False) for v, p in a]
            elif op == 'getelementptr':
                bty, idx = ins.x
                base = self.val(st, fr, ins.ty, ins.ops[0])
                idxv = [(ity, self.val(st, fr, ity, iv)) for ity, iv in idx]
                env[ins.dst] = self.gep(st, bty, base, idxv)
            elif op == 'load':
                pv = self.val(st, fr, llir.Ty('ptr', elem=ins.ty), ins.ops[0])
                env[ins.dst] = self.load(st, ins.ty, pv, ins.x)
            elif op == 'store':
                v = self.val(st, fr, ins.ty, ins.ops[0])
                pv = self.val(st, fr, llir.Ty('ptr', elem=ins.ty), ins.ops[1])
                self.store(st, ins.ty, v, pv, ins.x)
            elif op == 'alloca':
                align, cnt = ins.x
                n = 1
                if cnt is not None:
                    c = sym.nsimp(self.val(st, fr, cnt[0], cnt[1])[0][0])
                    if not isinstance(c, int):
                        raise NotEncodable('variable-size alloca')
                    n = c
                o = self.new_obj(st, 'bytes', llir.alloc_size(ins.ty) * n, align or llir.abi_align(ins.ty),
                                 'alloca:%s:%s' % (fr.fn.name, ins.dst))
                fr.allocas.append(o.id)
                env[ins.dst] = [(Ptr(o.id, 0), False)]
            elif op == 'call':
                r = self.call(st, fr, ins, work)
                if r == 'pushed':
                    continue
                if r == 'dead':
                    return
                if ins.dst is not None:
                    env[ins.dst] = r
            elif op == 'br':
                if len(ins.x) == 1:
                    self.goto(st, ins.x[0])
                else:
                    v, p = self.val(st, fr, llir.I1, ins.ops[0])[0]
                    st.oblige('ub:branch-on-poison', p, fr.fn.name)
                    self.branch(st, work, sym.truth(v), ins.x[0], ins.x[1])
            elif op == 'switch':
                v, p = self.val(st, fr, ins.ty, ins.ops[0])[0]
                st.oblige('ub:branch-on-poison', p, fr.fn.name)
                dflt, cases = ins.x
                w = ins.ty.lbits()
                v = sym.nsimp(v)
                if isinstance(v, int):
                    for cv, lab in cases:
                        if cv == v:
                            self.goto(st, lab)
                            break
                    else:
                        self.goto(st, dflt)
                else:
                    check = st.visits.get((fr.fn.name, fr.lab), 0) > self.LOOP_CHECK
                    neg = []
                    for cv, lab in cases:
                        c = v == z3.BitVecVal(cv, w)
                        neg.append(z3.Not(c))
                        if sym.sb(b_and(*(st.pc[-3:] + [c]))) is False:
                            continue
                        if check and not self.feasible(st, c):
                            continue
                        st2 = st.clone()
                        st2.pc.append(c)
                        self.goto(st2, lab)
                        work.append(st2)
                    st.pc.extend(neg)
                    self.goto(st, dflt)
            elif op == 'ret':
                rv = None
                if ins.ty.kind != 'void':
                    rv = self.val(st, fr, ins.ty, ins.ops[0])
                for oid in fr.allocas:
                    st.wobj(oid).live = False
                st.frames.pop()
                if not st.frames:
                    self.finals.append(Final(st, rv))
                    return
                caller = st.frames[-1]
                if fr.dst is not None:
                    caller.env[fr.dst] = rv
            elif op == 'unreachable':
                st.oblige('ub:unreachable-executed', True, fr.fn.name)
                self.finals.append(Final(st, None))
                return
            elif op == 'fence':
                pass
            else:
                raise NotEncodable('instruction ' + op)

    def icmp(self, st, pred, ty, a, b):
        w = ty.lbits()
        f = {'eq': sym.eq, 'ne': sym.ne, 'ugt': sym.ugt, 'uge': sym.uge, 'ult': sym.ult, 'ule': sym.ule,
             'sgt': sym.sgt, 'sge': sym.sge, 'slt': sym.slt, 'sle': sym.sle}[pred]
        out = []
        for (x, px), (y, py) in zip(a, b):
            if isinstance(x, Ptr) or isinstance(y, Ptr):
                out.append((sym.b2bv(self.ptr_cmp(st, pred, x, y)), b_or(px, py)))
            else:
                out.append((sym.b2bv(f(x, y, w)), b_or(px, py)))
        return out

    def ptr_cmp(self, st, pred, x, y):
        def addr(v):
            if isinstance(v, Ptr):
                if v.obj == 0:
                    return v.off
                o = st.objs[v.obj]
                if o.base is None:
                    o = st.wobj(v.obj)
                    o.base = self.fresh_base(st, o)
                return sym.add(o.base, v.off, 64)
            return v
        if isinstance(x, Ptr) and isinstance(y, Ptr) and x.obj == y.obj:
            f = {'eq': sym.eq, 'ne': sym.ne, 'ugt': sym.sgt, 'uge': sym.sge, 'ult': sym.slt, 'ule': sym.sle,
                 'sgt': sym.sgt, 'sge': sym.sge, 'slt': sym.slt, 'sle': sym.sle}[pred]
            return f(x.off, y.off, 64)
        if pred in ('eq', 'ne'):
            # comparison against null / other objects
            for a, b in ((x, y), (y, x)):
                if isinstance(a, Ptr) and a.obj != 0 and isinstance(b, int) and b == 0:
                    return pred == 'ne'
                if isinstance(a, Ptr) and a.obj != 0 and isinstance(b, Ptr) and b.obj == 0 and isinstance(b.off, int) and b.off == 0:
                    return pred == 'ne'
        f = {'eq': sym.eq, 'ne': sym.ne, 'ugt': sym.ugt, 'uge': sym.uge, 'ult': sym.ult, 'ule': sym.ule,
             'sgt': sym.sgt, 'sge': sym.sge, 'slt': sym.slt, 'sle': sym.sle}[pred]
        return f(addr(x), addr(y), 64)

    def select(self, ty, c, a, b):
        if isinstance(a, Agg):
            cv, cp = c[0]
            t = sym.truth(cv)
            return Agg([self.select(None, c, x, y) for x, y in zip(a.elems, b.elems)])
        w = ty.lbits() if ty is not None else None
        if len(c) == 1 and len(a) > 1:
            c = c * len(a)
        out = []
        for (cv, cp), (x, px), (y, py) in zip(c, a, b):
            t = sym.truth(cv)
            if isinstance(x, Ptr) or isinstance(y, Ptr):
                if t is True:
                    out.append((x, b_or(cp, px)))
                elif t is False:
                    out.append((y, b_or(cp, py)))
                elif isinstance(x, Ptr) and isinstance(y, Ptr) and x.obj == y.obj:
                    out.append((Ptr(x.obj, sym.ite(t, x.off, y.off, 64)), b_or(cp, sym.b_ite(t, px, py))))
                else:
                    raise _ForkOnSelect(t)
                continue
            if w is None:
                w = x.size() if not isinstance(x, int) else (y.size() if not isinstance(y, int) else 64)
            out.append((sym.ite(t, x, y, w), b_or(cp, sym.b_ite(t, px, py))))
        return out

    # ------------------------------------------------------------------ calls
    def call(self, st, fr, ins, work):
        callee, asm = ins.x
        args = [(aty, self.val(st, fr, aty, av), attrs) for aty, av, attrs in ins.ops]
        if callee == 'asm':
            self.intrinsics_used.add('asm:' + asm[0])
            return self.intr.asm(self, st, ins, asm, args)
        if isinstance(callee, tuple):
            raise NotEncodable('indirect call')
        if callee in self.stubs:
            self.called.add(callee)
            return self.stubs[callee](self, st, ins, args)
        if callee in self.mod.fns:
            fn = self.mod.fns[callee]
            self.called.add(callee)
            env = {}
            for (nm, ty, attrs), (aty, v, _) in zip(fn.args, args):
                env[nm] = v
            if len(st.frames) > 40:
                raise NotEncodable('call depth')
            nf = Frame(fn, env)
            nf.dst = ins.dst
            st.frames.append(nf)
            key = (fn.name, nf.lab)
            st.visits[key] = st.visits.get(key, 0) + 1
            return 'pushed'
        self.intrinsics_used.add(callee)
        return self.intr.call(self, st, ins, callee, args)


def _mentions(e, v):
    if isinstance(e, int):
        return False
    seen = set()
    stack = [e]
    vid = v.get_id()
    while stack:
        x = stack.pop()
        i = x.get_id()
        if i in seen:
            continue
        seen.add(i)
        if i == vid:
            return True
        stack.extend(x.children())
    return False


def _insertvalue(a, idx, e):
    if not idx:
        return e
    elems = list(a.elems)
    elems[idx[0]] = _insertvalue(elems[idx[0]], idx[1:], e)
    return Agg(elems)


def klz(x, w):
    """number of leading zero bits that are known statically (cheap, syntactic)"""
    if isinstance(x, int):
        return w - x.bit_length()
    try:
        k = x.decl().kind()
    except Exception:
        return 0
    if k == z3.Z3_OP_BNUM:
        return w - x.as_long().bit_length()
    ch = x.children()
    if k == z3.Z3_OP_BAND:
        return max(klz(c, w) for c in ch)
    if k in (z3.Z3_OP_BOR, z3.Z3_OP_BXOR):
        return min(klz(c, w) for c in ch)
    if k == z3.Z3_OP_ZERO_EXT:
        n = x.params()[0]
        return n + klz(ch[0], w - n)
    if k == z3.Z3_OP_BLSHR and z3.is_bv_value(ch[1]):
        return min(w, klz(ch[0], w) + ch[1].as_long())
    if k == z3.Z3_OP_ITE:
        return min(klz(ch[1], w), klz(ch[2], w))
    if k == z3.Z3_OP_CONCAT:
        n = 0
        for c in ch:
            cw = c.size()
            z = klz(c, cw)
            n += z
            if z < cw:
                break
        return n
    return 0


def ksb(x, w):
    """number of leading bits statically known to equal the sign bit (>= 1)"""
    if isinstance(x, int):
        v = sym.sgn(x, w)
        n = (v if v >= 0 else ~v).bit_length()
        return w - n
    try:
        k = x.decl().kind()
    except Exception:
        return 1
    if k == z3.Z3_OP_BNUM:
        return ksb(x.as_long(), w)
    ch = x.children()
    if k == z3.Z3_OP_SIGN_EXT:
        n = x.params()[0]
        return n + ksb(ch[0], w - n)
    if k == z3.Z3_OP_ZERO_EXT:
        return max(1, x.params()[0])
    if k == z3.Z3_OP_BASHR and z3.is_bv_value(ch[1]):
        return min(w, ksb(ch[0], w) + ch[1].as_long())
    if k == z3.Z3_OP_ITE:
        return min(ksb(ch[1], w), ksb(ch[2], w))
    z = klz(x, w)
    return max(1, z)


def _sign(x, w):
    return z3.Extract(w - 1, w - 1, bv(x, w))


def _add_sov(x, y, w):
    if isinstance(x, int) and isinstance(y, int):
        s = sym.sgn(x, w) + sym.sgn(y, w)
        return not (-(1 << (w - 1)) <= s < (1 << (w - 1)))
    if ksb(x, w) >= 2 and ksb(y, w) >= 2:
        return False
    r = bv(x, w) + bv(y, w)
    return z3.And(_sign(x, w) == _sign(y, w), _sign(r, w) != _sign(x, w))


def _sub_sov(x, y, w):
    if isinstance(x, int) and isinstance(y, int):
        s = sym.sgn(x, w) - sym.sgn(y, w)
        return not (-(1 << (w - 1)) <= s < (1 << (w - 1)))
    if ksb(x, w) >= 2 and ksb(y, w) >= 2:
        return False
    r = bv(x, w) - bv(y, w)
    return z3.And(_sign(x, w) != _sign(y, w), _sign(r, w) != _sign(x, w))


def _mul_ov(x, y, w, signed):
    if isinstance(x, int) and isinstance(y, int):
        if signed:
            s = sym.sgn(x, w) * sym.sgn(y, w)
            return not (-(1 << (w - 1)) <= s < (1 << (w - 1)))
        return x * y > M(w)
    kx, ky = klz(x, w), klz(y, w)
    if signed:
        if ksb(x, w) + ksb(y, w) >= w + 2:
            return False
        p = z3.SignExt(w, bv(x, w)) * z3.SignExt(w, bv(y, w))
        return p != z3.SignExt(w, z3.Extract(w - 1, 0, p))
    if kx + ky >= w:
        return False
    p = z3.ZeroExt(w, bv(x, w)) * z3.ZeroExt(w, bv(y, w))
    return z3.Extract(2 * w - 1, w, p) != 0
