"""Change awareness for the quick tier: which library headers differ from the tree the committed evidence was produced on
(/verif/baseline_hashes.json), and which vector types those headers can affect.  When something changed, the quick tier adds
EVERY configuration (not just the five-configuration spine) for the affected types, so that a change inside a rarely
selected preprocessor arm (SSSE3-only, AVX-512VL without CD, ...) is still compiled and decided.  Purely additive."""
import hashlib
import json
import os
import re

from . import build

ROOT = os.path.dirname(os.path.dirname(os.path.abspath(__file__)))
MANIFEST = os.path.join(ROOT, 'baseline_hashes.json')


def tree_hashes():
    inc = os.path.join(build.REPO, 'include')
    out = {}
    for dp, dn, fn in os.walk(inc):
        for f in fn:
            p = os.path.join(dp, f)
            rel = os.path.relpath(p, inc)
            out[rel] = hashlib.sha1(open(p, 'rb').read()).hexdigest()
    return out


def write_manifest():
    json.dump(tree_hashes(), open(MANIFEST, 'w'), indent=0, sort_keys=True)


def changed_files():
    if not os.path.exists(MANIFEST):
        return []
    base = json.load(open(MANIFEST))
    cur = tree_hashes()
    return sorted(f for f in set(base) | set(cur) if base.get(f) != cur.get(f))


def type_dependencies():
    """type name -> set of type names whose header mentions it (reverse dependency, transitive)"""
    vdir = os.path.join(build.REPO, 'include', 'avel', 'impl', 'vectors')
    mentions = {}
    for f in os.listdir(vdir):
        m = re.fullmatch(r'Vec(\d+x\d+[uif])\.hpp', f)
        if not m:
            continue
        t = 'vec' + m.group(1)
        text = open(os.path.join(vdir, f)).read()
        mentions[t] = set(re.findall(r'\b(?:vec|mask)(\d+x\d+[uif])\b', text))
    rev = {}
    for t, ms in mentions.items():
        for mname in ms:
            rev.setdefault('vec' + mname, set()).add(t)
    return rev


def affected_types(files):
    """-> (set of vector type names, scalar_changed bool, global_change bool)"""
    types = set()
    scalar = False
    glob = False
    for f in files:
        b = os.path.basename(f)
        m = re.fullmatch(r'Vec(\d+x\d+[uif])\.hpp', b)
        if m:
            types.add('vec' + m.group(1))
            continue
        if re.fullmatch(r'Scalar\d+[uif]\.hpp', b) or b == 'Scalars.hpp':
            scalar = True
            mm = re.fullmatch(r'Scalar(\d+)([uif])\.hpp', b)
            if mm:
                types.add('vec1x%s%s' % (mm.group(1), mm.group(2)))
            continue
        if b.startswith('Denominator') or b in ('Aligned_allocator.hpp', 'Cache.hpp'):
            continue
        glob = True
    rev = type_dependencies()
    work = list(types)
    while work:
        t = work.pop()
        for d in rev.get(t, ()):
            if d not in types:
                types.add(d)
                work.append(d)
    return types, scalar, glob
