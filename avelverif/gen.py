"""Wrapper generator: one extern "C" function per (type, operation[, template constant]); one wrapper per source
line so that compiler diagnostics map back to wrappers."""
from . import ops, avtypes
from .avtypes import VT, CT


def arg_decl(kind, T, i, scalar):
    nm = 'a%d' % i
    S = T.other('i') if T.kind != 'f' else VT(T.n, T.bits, 'i')
    if kind == 'v':
        return (T.ctype if scalar else 'avel::%s::primitive' % T.name) + ' ' + nm, nm if scalar else 'avel::%s{%s}' % (T.name, nm)
    if kind in ('w', 'x'):
        return (S.ctype if scalar else 'avel::%s::primitive' % S.name) + ' ' + nm, nm if scalar else 'avel::%s{%s}' % (S.name, nm)
    if kind == 'm':
        return ('bool' if scalar else 'avel::%s::primitive' % T.mask) + ' ' + nm, nm if scalar else 'avel::%s{%s}' % (T.mask, nm)
    if kind == 's':
        return T.ctype + ' ' + nm, nm
    if kind == 'L':
        return 'long long ' + nm, nm
    if kind == 'U':
        return 'std::uint32_t ' + nm, nm
    if kind == 'b':
        return 'bool ' + nm, nm
    raise Exception(kind)


def ret_decl(kind, T, scalar, expr):
    S = T.other('i') if T.kind != 'f' else VT(T.n, T.bits, 'i')
    if kind == 'v':
        return (T.ctype, 'static_cast<%s>(%s)' % (T.ctype, expr)) if scalar else ('avel::%s::primitive' % T.name, 'avel::decay(avel::%s(%s))' % (T.name, expr))
    if kind in ('w', 'x'):
        return (S.ctype, 'static_cast<%s>(%s)' % (S.ctype, expr)) if scalar else ('avel::%s::primitive' % S.name, 'avel::decay(avel::%s(%s))' % (S.name, expr))
    if kind == 'm':
        return ('bool', 'static_cast<bool>(%s)' % expr) if scalar else ('avel::%s::primitive' % T.mask, 'avel::decay(avel::%s(%s))' % (T.mask, expr))
    if kind.startswith('V:'):
        return 'avel::%s::primitive' % kind[2:], 'avel::decay(avel::%s(%s))' % (kind[2:], expr)
    if kind.startswith('M:'):
        mk = 'mask' + kind[5:]
        return 'avel::%s::primitive' % mk, 'avel::decay(avel::%s(%s))' % (mk, expr)
    if kind == 's':
        return T.ctype, expr
    if kind == 'b':
        return 'bool', expr
    if kind == 'U':
        return 'std::uint32_t', expr
    raise Exception(kind)


def wrappers_for(cfg, props, tier, types=None, scalars=True, only_ops=None, scalars_only=False):
    """-> list of dict(name, line, op, type, scalar, K) for every wrapper relevant to the given properties"""
    out = []
    props = set(props)
    for o in ops.OPS:
        if not (props & set(o.props)):
            continue
        if only_ops and o.name not in only_ops:
            continue
        if o.tier == 'thorough' and tier != 'thorough':
            continue
        for T in (avtypes.ALL_TYPES if o.expr is not None and not scalars_only else []):
            if T.kind not in o.cls:
                continue
            if types and T.name not in types:
                continue
            if not avtypes.available(T, cfg.macros):
                continue
            if o.widths and not o.widths(T):
                continue
            if o.only_types and T.name not in o.only_types:
                continue
            if o.dst and not avtypes.available(avtypes.BY_NAME[o.dst], cfg.macros):
                continue
            ks = o.consts(T, tier) if o.consts else [None]
            for K in ks:
                nm = 'w_%s__%s%s' % (T.name, o.name, '' if K is None else '__k%d' % K)
                out.append(make(nm, o, T, False, K))
        if o.scalar and scalars:
            for bits in (8, 16, 32, 64):
                for kind in o.cls:
                    if kind == 'f' and bits < 32:
                        continue
                    T = VT(1, bits, kind)
                    nm = 'w_s%d%s__%s' % (bits, kind, o.name)
                    out.append(make(nm, o, T, True, None))
    return out


def make(nm, o, T, scalar, K):
    decls = []
    exprs = []
    for i, k in enumerate(o.args):
        d, e = arg_decl(k, T, i, scalar)
        decls.append(d)
        exprs.append(e)
    tmpl = o.scalar if scalar else o.expr
    expr = tmpl.format(*exprs, K=K, V='avel::' + T.name, M='avel::' + T.mask)
    rty, rexpr = ret_decl(o.ret, T, scalar, expr)
    line = 'VW %s %s(%s) { return %s; }' % (rty, nm, ', '.join(decls), rexpr)
    return {'name': nm, 'line': line, 'op': o.name, 'type': T.name, 'scalar': scalar, 'K': K,
            'params': [d.rsplit(' ', 1)[0] for d in decls], 'rtype': rty}


def source(wrappers, extra_includes=()):
    lines = ['#include "verif_prelude.hpp"']
    for inc in extra_includes:
        lines.append('#include %s' % inc)
    first = len(lines) + 1
    for w in wrappers:
        lines.append(w['line'])
    return '\n'.join(lines) + '\n', first
