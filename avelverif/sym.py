"""Lane-level value algebra: a lane is a Python int (concrete fast path) or a z3 BitVecRef;
a truth value is a Python bool or a z3 BoolRef.  Every helper keeps concrete operands concrete."""
import z3

_ctr = [0]


def fresh(prefix, w):
    _ctr[0] += 1
    return z3.BitVec('%s!%d' % (prefix, _ctr[0]), w)


def fresh_bool(prefix):
    _ctr[0] += 1
    return z3.Bool('%s!%d' % (prefix, _ctr[0]))


def M(w):
    return (1 << w) - 1


def isc(x):
    return isinstance(x, int)


def bv(x, w):
    return z3.BitVecVal(x, w) if isinstance(x, int) else x


def norm(x):
    """z3 numeral -> int"""
    if isinstance(x, int):
        return x
    if z3.is_bv_value(x):
        return x.as_long()
    return x


def nsimp(x):
    if isinstance(x, int):
        return x
    return norm(z3.simplify(x))


def sgn(x, w):
    return x - (1 << w) if x >> (w - 1) else x


# ------------------------------------------------------------------ booleans
def isb(x):
    return isinstance(x, bool)


def b_or(*xs):
    r = []
    for x in xs:
        if x is True:
            return True
        if x is False:
            continue
        r.append(x)
    if not r:
        return False
    if len(r) == 1:
        return r[0]
    return z3.Or(*r)


def b_and(*xs):
    r = []
    for x in xs:
        if x is False:
            return False
        if x is True:
            continue
        r.append(x)
    if not r:
        return True
    if len(r) == 1:
        return r[0]
    return z3.And(*r)


def b_not(x):
    if isinstance(x, bool):
        return not x
    if z3.is_not(x):
        return x.children()[0]
    return z3.Not(x)


def b_ite(c, x, y):
    if c is True:
        return x
    if c is False:
        return y
    if not isinstance(c, bool) and z3.is_not(c):
        c = c.children()[0]
        x, y = y, x
    if x is y:
        return x
    if isb(x) and isb(y):
        if x == y:
            return x
        return c if x else z3.Not(c)
    return z3.If(c, bz(x), bz(y))


def bz(x):
    return z3.BoolVal(x) if isinstance(x, bool) else x


def nb(x):
    """normalise z3 bool constant -> python bool"""
    if isinstance(x, bool):
        return x
    if z3.is_true(x):
        return True
    if z3.is_false(x):
        return False
    return x


def sb(x):
    if isinstance(x, bool):
        return x
    return nb(z3.simplify(x))


# ------------------------------------------------------------------ bit-vector ops
def ite(c, x, y, w):
    if c is True:
        return x
    if c is False:
        return y
    if z3.is_not(c):          # canonical form: positive condition (keeps implementation and oracle terms shareable)
        c = c.children()[0]
        x, y = y, x
    if isinstance(x, int) and isinstance(y, int) and x == y:
        return x
    if x is y:
        return x
    return z3.If(c, bv(x, w), bv(y, w))


def add(x, y, w):
    if isinstance(x, int) and isinstance(y, int):
        return (x + y) & M(w)
    if isinstance(y, int) and y == 0:
        return x
    if isinstance(x, int) and x == 0:
        return y
    return bv(x, w) + bv(y, w)


def sub(x, y, w):
    if isinstance(x, int) and isinstance(y, int):
        return (x - y) & M(w)
    if isinstance(y, int) and y == 0:
        return x
    return bv(x, w) - bv(y, w)


def mul(x, y, w):
    if isinstance(x, int) and isinstance(y, int):
        return (x * y) & M(w)
    if isinstance(y, int) and y == 1:
        return x
    if isinstance(x, int) and x == 1:
        return y
    if (isinstance(y, int) and y == 0) or (isinstance(x, int) and x == 0):
        return 0
    return bv(x, w) * bv(y, w)


def and_(x, y, w):
    if isinstance(x, int) and isinstance(y, int):
        return x & y
    for a, b in ((x, y), (y, x)):
        if isinstance(a, int):
            if a == 0:
                return 0
            if a == M(w):
                return b
    return bv(x, w) & bv(y, w)


def or_(x, y, w):
    if isinstance(x, int) and isinstance(y, int):
        return x | y
    for a, b in ((x, y), (y, x)):
        if isinstance(a, int):
            if a == 0:
                return b
            if a == M(w):
                return a
    return bv(x, w) | bv(y, w)


def xor(x, y, w):
    if isinstance(x, int) and isinstance(y, int):
        return x ^ y
    for a, b in ((x, y), (y, x)):
        if isinstance(a, int) and a == 0:
            return b
    return bv(x, w) ^ bv(y, w)


def not_(x, w):
    if isinstance(x, int):
        return x ^ M(w)
    return ~x


def neg(x, w):
    if isinstance(x, int):
        return (-x) & M(w)
    return -x


def shl(x, y, w):
    """y < w assumed by caller (else result irrelevant)"""
    if isinstance(x, int) and isinstance(y, int):
        return (x << y) & M(w) if y < w else 0
    return bv(x, w) << bv(y, w)


def lshr(x, y, w):
    if isinstance(x, int) and isinstance(y, int):
        return x >> y if y < w else 0
    return z3.LShR(bv(x, w), bv(y, w))


def ashr(x, y, w):
    if isinstance(x, int) and isinstance(y, int):
        return (sgn(x, w) >> min(y, w - 1)) & M(w)
    return bv(x, w) >> bv(y, w)


def udiv(x, y, w):
    if isinstance(x, int) and isinstance(y, int):
        return x // y if y else M(w)
    return z3.UDiv(bv(x, w), bv(y, w))


def urem(x, y, w):
    if isinstance(x, int) and isinstance(y, int):
        return x % y if y else x
    return z3.URem(bv(x, w), bv(y, w))


def sdiv(x, y, w):
    if isinstance(x, int) and isinstance(y, int):
        if y == 0:
            return M(w) if sgn(x, w) >= 0 else 1
        a, b = sgn(x, w), sgn(y, w)
        q = abs(a) // abs(b)
        if (a < 0) != (b < 0):
            q = -q
        return q & M(w)
    return bv(x, w) / bv(y, w)


def srem(x, y, w):
    if isinstance(x, int) and isinstance(y, int):
        if y == 0:
            return x
        a, b = sgn(x, w), sgn(y, w)
        r = abs(a) % abs(b)
        if a < 0:
            r = -r
        return r & M(w)
    return z3.SRem(bv(x, w), bv(y, w))


def eq(x, y, w):
    if isinstance(x, int) and isinstance(y, int):
        return x == y
    return bv(x, w) == bv(y, w)


def ne(x, y, w):
    return b_not(eq(x, y, w))


def ult(x, y, w):
    if isinstance(x, int) and isinstance(y, int):
        return x < y
    return z3.Not(z3.ULE(bv(y, w), bv(x, w)))      # canonical: only ULE / SLE atoms are ever built


def ule(x, y, w):
    if isinstance(x, int) and isinstance(y, int):
        return x <= y
    return z3.ULE(bv(x, w), bv(y, w))


def ugt(x, y, w):
    return ult(y, x, w)


def uge(x, y, w):
    return ule(y, x, w)


def slt(x, y, w):
    if isinstance(x, int) and isinstance(y, int):
        return sgn(x, w) < sgn(y, w)
    return z3.Not(bv(y, w) <= bv(x, w))


def sle(x, y, w):
    if isinstance(x, int) and isinstance(y, int):
        return sgn(x, w) <= sgn(y, w)
    return bv(x, w) <= bv(y, w)


def sgt(x, y, w):
    return slt(y, x, w)


def sge(x, y, w):
    return sle(y, x, w)


def zext(x, w, w2):
    if isinstance(x, int):
        return x
    if w2 == w:
        return x
    return z3.ZeroExt(w2 - w, x)


def sext(x, w, w2):
    if isinstance(x, int):
        return sgn(x, w) & M(w2)
    if w2 == w:
        return x
    return z3.SignExt(w2 - w, x)


def trunc(x, w, w2):
    if isinstance(x, int):
        return x & M(w2)
    if w2 == w:
        return x
    return z3.Extract(w2 - 1, 0, x)


def extract(x, hi, lo, w):
    if isinstance(x, int):
        return (x >> lo) & M(hi - lo + 1)
    if lo == 0 and hi == w - 1:
        return x
    if z3.is_app_of(x, z3.Z3_OP_CONCAT):
        # bitcast round trips: pick the operand that covers the requested slice (children are most significant first)
        pos = w
        for c in x.children():
            cw = c.size()
            pos -= cw
            if lo >= pos and hi < pos + cw:
                r = extract(c, hi - pos, lo - pos, cw)
                return norm(r)
            if hi >= pos + cw:
                continue
    elif x.decl().kind() in (z3.Z3_OP_BOR, z3.Z3_OP_BAND, z3.Z3_OP_BXOR, z3.Z3_OP_BNOT) and hi - lo + 1 < w:
        # bitwise operators commute with slicing; this undoes <2 x i64> arithmetic on what are really 32-bit lanes
        k = x.decl().kind()
        parts = [extract(c, hi, lo, w) for c in x.children()]
        nw = hi - lo + 1
        if k == z3.Z3_OP_BNOT:
            return not_(parts[0], nw)
        f = {z3.Z3_OP_BOR: or_, z3.Z3_OP_BAND: and_, z3.Z3_OP_BXOR: xor}[k]
        r = parts[0]
        for q in parts[1:]:
            r = f(r, q, nw)
        return r
    elif z3.is_app_of(x, z3.Z3_OP_EXTRACT):
        h0, l0 = x.params()
        c = x.children()[0]
        return extract(c, l0 + hi, l0 + lo, c.size())
    elif z3.is_bv_value(x):
        return (x.as_long() >> lo) & M(hi - lo + 1)
    return z3.Extract(hi, lo, x)


def concat(parts):
    """parts: list of (value, width) least-significant first -> (value, width)"""
    tot = sum(w for _, w in parts)
    if all(isinstance(v, int) for v, _ in parts):
        r = 0
        sh = 0
        for v, w in parts:
            r |= v << sh
            sh += w
        return r, tot
    if len(parts) == 1:
        return parts[0]
    # merge adjacent concrete parts to keep terms small
    merged = []
    for v, w in parts:
        if merged and isinstance(v, int) and isinstance(merged[-1][0], int):
            pv, pw = merged[-1]
            merged[-1] = (pv | (v << pw), pw + w)
        else:
            merged.append((v, w))
    if len(merged) == 1:
        return merged[0][0], tot
    return z3.Concat(*[bv(v, w) for v, w in reversed(merged)]), tot


def regroup(lanes, w1, w2):
    """reinterpret a little-endian list of w1-bit lanes as w2-bit lanes (bitcast)"""
    if w1 == w2:
        return list(lanes)
    n1 = len(lanes)
    tot = n1 * w1
    assert tot % w2 == 0, (n1, w1, w2)
    n2 = tot // w2
    out = []
    if w2 > w1:
        assert w2 % w1 == 0
        k = w2 // w1
        for i in range(n2):
            v, _ = concat([(lanes[i * k + j], w1) for j in range(k)])
            out.append(v)
    else:
        assert w1 % w2 == 0
        k = w1 // w2
        for i in range(n1):
            for j in range(k):
                out.append(extract(lanes[i], j * w2 + w2 - 1, j * w2, w1))
    return out


def b2bv(c, w=1):
    """bool -> 0/1 lane"""
    if isinstance(c, bool):
        return 1 if c else 0
    return z3.If(c, z3.BitVecVal(1, w), z3.BitVecVal(0, w))


def truth(x):
    """i1 lane -> bool, undoing b2bv where possible"""
    if isinstance(x, int):
        return bool(x & 1)
    if z3.is_app_of(x, z3.Z3_OP_ITE):
        a, b, c = x.children()
        if z3.is_bv_value(b) and z3.is_bv_value(c):
            bl, cl = b.as_long(), c.as_long()
            if bl == 1 and cl == 0:
                return a
            if bl == 0 and cl == 1:
                return z3.Not(a)
    return x == z3.BitVecVal(1, 1)


def popcount(x, w):
    if isinstance(x, int):
        return bin(x).count('1')
    r = z3.BitVecVal(0, w)
    for i in range(w):
        r = r + z3.ZeroExt(w - 1, z3.Extract(i, i, x))
    return r


def ctlz(x, w):
    if isinstance(x, int):
        return w - x.bit_length()
    r = z3.BitVecVal(w, w)
    for i in range(w):   # from lsb to msb: the highest set bit wins
        r = z3.If(z3.Extract(i, i, x) == 1, z3.BitVecVal(w - 1 - i, w), r)
    return r


def cttz(x, w):
    if isinstance(x, int):
        return w if x == 0 else (x & -x).bit_length() - 1
    r = z3.BitVecVal(w, w)
    for i in reversed(range(w)):
        r = z3.If(z3.Extract(i, i, x) == 1, z3.BitVecVal(i, w), r)
    return r


def bswap(x, w):
    if isinstance(x, int):
        return int.from_bytes(x.to_bytes(w // 8, 'little'), 'big')
    return z3.Concat(*[z3.Extract(8 * i + 7, 8 * i, x) for i in range(w // 8)])
