"""Build configurations: user-level AVEL macro sets with the matching clang -m flags."""
import re
from .avtypes import close, IMPLIES

MFLAG = {
    'AVEL_SSE2': ['-msse2'], 'AVEL_SSE3': ['-msse3'], 'AVEL_SSSE3': ['-mssse3'], 'AVEL_SSE4_1': ['-msse4.1'],
    'AVEL_SSE4_2': ['-msse4.2'], 'AVEL_AVX': ['-mavx'], 'AVEL_AVX2': ['-mavx2'], 'AVEL_FMA': ['-mfma'],
    'AVEL_AVX512F': ['-mavx512f'], 'AVEL_AVX512VL': ['-mavx512vl'], 'AVEL_AVX512BW': ['-mavx512bw'],
    'AVEL_AVX512DQ': ['-mavx512dq'], 'AVEL_AVX512CD': ['-mavx512cd'], 'AVEL_AVX512VPOPCNTDQ': ['-mavx512vpopcntdq'],
    'AVEL_AVX512BITALG': ['-mavx512bitalg'], 'AVEL_AVX512VBMI': ['-mavx512vbmi'], 'AVEL_AVX512VBMI2': ['-mavx512vbmi2'],
    'AVEL_GFNI': ['-mgfni'], 'AVEL_POPCNT': ['-mpopcnt'], 'AVEL_LZCNT': ['-mlzcnt'], 'AVEL_BMI': ['-mbmi'],
    'AVEL_BMI2': ['-mbmi2'], 'AVEL_X86': [], 'AVEL_SSE': ['-msse'], 'AVEL_PREFETCH': [],
}


class Config:
    def __init__(self, name, macros, std='c++17'):
        self.name = name
        self.user = list(macros)
        self.macros = close(macros)
        self.std = std

    def flags(self):
        f = []
        for m in sorted(self.macros):
            for x in MFLAG.get(m, []):
                if x not in f:
                    f.append(x)
        return ['-std=' + self.std] + ['-D' + m for m in self.user] + f

    def __repr__(self):
        return self.name


def C(name, *macros, **kw):
    return Config(name, ['AVEL_' + m for m in macros], **kw)


AVX512_ALL = ['AVX512VL', 'AVX512BW', 'AVX512DQ', 'AVX512CD', 'AVX512VPOPCNTDQ', 'AVX512BITALG', 'AVX512VBMI',
              'AVX512VBMI2', 'GFNI', 'BMI2', 'BMI', 'LZCNT']

# the quick spine: one configuration per major code path family
SPINE = [
    C('none'),
    C('sse2', 'SSE2'),
    C('sse42', 'SSE4_2'),
    C('avx2', 'AVX2', 'FMA', 'BMI2', 'BMI', 'LZCNT'),
    C('avx512', *AVX512_ALL),
]

# thorough: every chain prefix, each AVX-512 sub-extension with/without VL/BW, the scalar sets
EXTRA = [
    C('x86', 'X86'),
    C('popcnt', 'POPCNT'),
    C('lzcnt', 'LZCNT'),
    C('bmi', 'BMI'),
    C('bmi2', 'BMI2'),
    C('sse3', 'SSE3'),
    C('ssse3', 'SSSE3'),
    C('sse41', 'SSE4_1'),
    C('avx', 'AVX'),
    C('avx2only', 'AVX2'),
    C('avx512f', 'AVX512F'),
    C('avx512vl', 'AVX512VL'),
    C('avx512bw', 'AVX512BW'),
    C('avx512dq', 'AVX512DQ'),
    C('avx512cd', 'AVX512CD'),
    C('avx512vlbw', 'AVX512VL', 'AVX512BW'),
    C('avx512vldq', 'AVX512VL', 'AVX512DQ'),
    C('avx512vlcd', 'AVX512VL', 'AVX512CD'),
    C('avx512vlbwdq', 'AVX512VL', 'AVX512BW', 'AVX512DQ'),
    C('avx512vlbwdqcd', 'AVX512VL', 'AVX512BW', 'AVX512DQ', 'AVX512CD'),
    C('avx512vpopcntdq', 'AVX512VL', 'AVX512BW', 'AVX512VPOPCNTDQ'),
    C('avx512bitalg', 'AVX512VL', 'AVX512BW', 'AVX512BITALG'),
    C('avx512vbmi', 'AVX512VL', 'AVX512BW', 'AVX512VBMI'),
    C('avx512vbmi2', 'AVX512VL', 'AVX512BW', 'AVX512VBMI2'),
    C('avx512gfni', 'AVX512VL', 'AVX512BW', 'GFNI'),
]

ALL = SPINE + EXTRA
BY_NAME = {c.name: c for c in ALL}


def for_tier(tier):
    return SPINE if tier == 'quick' else ALL


def check_ladder(repo):
    """the implication table used to predict which vector types exist is re-derived from Capabilities.hpp"""
    text = open(repo + '/include/avel/impl/Capabilities.hpp').read()
    found = {}
    for m in re.finditer(r'#if defined\((AVEL_\w+)\)\s*\n((?:\s*#define AVEL_\w+\s*\n)+)\s*#endif', text):
        a = m.group(1)
        bs = re.findall(r'#define (AVEL_\w+)', m.group(2))
        found.setdefault(a, []).extend(bs)
    mine = {}
    for a, bs in IMPLIES:
        mine.setdefault(a, []).extend(bs)
    diffs = []
    for a in set(found) | set(mine):
        if a.startswith('AVEL_A') and a in ('AVEL_ARMV9', 'AVEL_AARCH64', 'AVEL_AARCH32', 'AVEL_ARM'):
            continue
        if a in ('AVEL_SVE', 'AVEL_SVE2', 'AVEL_NEON', 'AVEL_AVX10_1', 'AVEL_AVX10_2'):
            continue
        if sorted(found.get(a, [])) != sorted(mine.get(a, [])):
            diffs.append((a, found.get(a), mine.get(a)))
    return diffs
