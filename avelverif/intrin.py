"""Models of llvm.* generic intrinsics, llvm.x86.* intrinsics, libc/libm functions and inline asm.
Every model is lane-exact and reads only the lanes the instruction reads (so poison in ignored lanes is ignored).
Models are validated against this CPU by hwcheck.py."""
import re
import z3
from . import sym, fp, llir
from .sym import M, bv, b_or, b_and, b_not
from .symex import NotEncodable, Ptr, Agg

REG = []


def model(pattern):
    rx = re.compile(pattern + r'$')

    def deco(f):
        REG.append((rx, f))
        return f
    return deco


class Intrinsics:
    def __init__(self):
        self.cache = {}

    def call(self, ex, st, ins, name, args):
        hit = self.cache.get(name)
        if hit is None:
            for rx, f in REG:
                m = rx.match(name)
                if m:
                    hit = (f, m)
                    break
            else:
                raise NotEncodable('no model for ' + name)
            self.cache[name] = hit
        f, m = hit
        return f(ex, st, ins, args, m)

    def asm(self, ex, st, ins, asm, args):
        tmpl, cons, quals = asm
        t = ' '.join(tmpl.replace('\\0A', ' ').replace('\\09', ' ').split())
        for rx, f in ASM:
            if rx.search(t):
                return f(ex, st, ins, args, cons)
        raise NotEncodable('no model for inline asm %r' % tmpl)


ASM = []


def asm_model(pattern):
    rx = re.compile(pattern)

    def deco(f):
        ASM.append((rx, f))
        return f
    return deco


def vals(a):
    return a[1]


def W(a):
    return a[0].lbits()


def lanewise1(args, f):
    w = W(args[0])
    return [(f(x, w), p) for x, p in vals(args[0])]


def lanewise2(args, f):
    w = W(args[0])
    return [(f(x, y, w), b_or(px, py)) for (x, px), (y, py) in zip(vals(args[0]), vals(args[1]))]


def const_int(a, what='immediate'):
    v = sym.nsimp(vals(a)[0][0])
    if not isinstance(v, int):
        raise NotEncodable('non-constant ' + what)
    return v


def mask_bits(a, n):
    """mask argument: <n x i1> vector or iK scalar -> list of n bools (+ poison)"""
    v = vals(a)
    if len(v) == 1 and a[0].kind == 'int':
        x, p = v[0]
        w = a[0].bits
        if isinstance(x, int) and x == M(w):
            return [True] * n, p
        return [sym.truth(sym.extract(x, i, i, w)) for i in range(n)], p
    return [sym.truth(x) for x, _ in v[:n]], b_or(*[p for _, p in v[:n]])


def masked(res, src, maskarg, w):
    """apply AVX-512 merge masking: res/src lists of (v,p)"""
    n = len(res)
    mb, mp = mask_bits(maskarg, n)
    return [(sym.ite(m, r[0], s[0], w), b_or(mp, sym.b_ite(m, r[1], s[1]))) for m, r, s in zip(mb, res, src)]


# ------------------------------------------------------------------------------------------------ generic llvm.*
@model(r'llvm\.(lifetime\.(start|end)|assume|experimental\.noalias\.scope\.decl|dbg\.\w+|donothing|invariant\.\w+)\b.*')
def _noop(ex, st, ins, args, m):
    return None


@model(r'llvm\.abs\..*')
def _abs(ex, st, ins, args, m):
    w = W(args[0])
    poison_min = const_int(args[1])
    out = []
    for x, p in vals(args[0]):
        r = sym.ite(sym.slt(x, 0, w), sym.neg(x, w), x, w)
        if poison_min:
            p = b_or(p, sym.eq(x, 1 << (w - 1), w))
        out.append((r, p))
    return out


@model(r'llvm\.bswap\..*')
def _bswap(ex, st, ins, args, m):
    return lanewise1(args, sym.bswap)


@model(r'llvm\.ctpop\..*')
def _ctpop(ex, st, ins, args, m):
    return lanewise1(args, sym.popcount)


@model(r'llvm\.ctlz\..*')
def _ctlz(ex, st, ins, args, m):
    w = W(args[0])
    zp = const_int(args[1])
    return [(sym.ctlz(x, w), b_or(p, sym.eq(x, 0, w)) if zp else p) for x, p in vals(args[0])]


@model(r'llvm\.cttz\..*')
def _cttz(ex, st, ins, args, m):
    w = W(args[0])
    zp = const_int(args[1])
    return [(sym.cttz(x, w), b_or(p, sym.eq(x, 0, w)) if zp else p) for x, p in vals(args[0])]


def _fsh(args, left):
    w = W(args[0])
    out = []
    for (a, pa), (b, pb), (c, pc) in zip(vals(args[0]), vals(args[1]), vals(args[2])):
        s = sym.urem(c, w, w) if not isinstance(c, int) else c % w
        if isinstance(s, int) and isinstance(a, int) and isinstance(b, int):
            cat = (a << w) | b
            r = ((cat << s) >> w) & M(w) if left else (cat >> s) & M(w)
        else:
            cat = z3.Concat(bv(a, w), bv(b, w))
            s2 = z3.ZeroExt(w, bv(s, w))
            r = z3.Extract(2 * w - 1, w, cat << s2) if left else z3.Extract(w - 1, 0, z3.LShR(cat, s2))
        out.append((r, b_or(pa, pb, pc)))
    return out


@model(r'llvm\.fshl\..*')
def _fshl(ex, st, ins, args, m):
    return _fsh(args, True)


@model(r'llvm\.fshr\..*')
def _fshr(ex, st, ins, args, m):
    return _fsh(args, False)


@model(r'llvm\.(smax|smin|umax|umin)\..*')
def _minmax(ex, st, ins, args, m):
    k = m.group(1)
    cmpf = {'smax': sym.sgt, 'smin': sym.slt, 'umax': sym.ugt, 'umin': sym.ult}[k]
    return lanewise2(args, lambda x, y, w: sym.ite(cmpf(x, y, w), x, y, w))


@model(r'llvm\.(usub|uadd|ssub|sadd)\.sat\..*')
def _sat(ex, st, ins, args, m):
    k = m.group(1)

    def f(x, y, w):
        if k == 'usub':
            return sym.ite(sym.uge(x, y, w), sym.sub(x, y, w), 0, w)
        if k == 'uadd':
            r = sym.add(x, y, w)
            return sym.ite(sym.ult(r, x, w), M(w), r, w)
        ext = w + 1
        a, b = sym.sext(x, w, ext), sym.sext(y, w, ext)
        r = sym.add(a, b, ext) if k == 'sadd' else sym.sub(a, b, ext)
        return sat_s(r, ext, w)
    return lanewise2(args, f)


def sat_s(r, win, wout):
    """signed saturate a win-bit value to wout bits"""
    hi = (1 << (wout - 1)) - 1
    lo = (-(1 << (wout - 1))) & M(win)
    t = sym.trunc(r, win, wout)
    return sym.ite(sym.sgt(r, hi, win), hi, sym.ite(sym.slt(r, lo, win), 1 << (wout - 1), t, wout), wout)


def sat_u_from_s(r, win, wout):
    """signed win-bit value saturated to unsigned wout bits"""
    t = sym.trunc(r, win, wout)
    return sym.ite(sym.slt(r, 0, win), 0, sym.ite(sym.sgt(r, M(wout), win), M(wout), t, wout), wout)


@model(r'llvm\.(uadd|usub|umul|sadd|ssub|smul)\.with\.overflow\..*')
def _with_overflow(ex, st, ins, args, m):
    k = m.group(1)
    w = W(args[0])
    (x, px), (y, py) = vals(args[0])[0], vals(args[1])[0]
    from . import symex
    if k == 'uadd':
        r = sym.add(x, y, w); o = sym.ult(r, x, w)
    elif k == 'usub':
        r = sym.sub(x, y, w); o = sym.ult(x, y, w)
    elif k == 'sadd':
        r = sym.add(x, y, w); o = symex._add_sov(x, y, w)
    elif k == 'ssub':
        r = sym.sub(x, y, w); o = symex._sub_sov(x, y, w)
    else:
        r = sym.mul(x, y, w); o = symex._mul_ov(x, y, w, k == 'smul')
    p = b_or(px, py)
    return Agg([[(r, p)], [(sym.b2bv(o), p)]])


@model(r'llvm\.(fabs|copysign)\..*')
def _fabs(ex, st, ins, args, m):
    w = W(args[0])
    if m.group(1) == 'fabs':
        return [(sym.and_(x, M(w - 1), w), p) for x, p in vals(args[0])]
    return [(sym.or_(sym.and_(x, M(w - 1), w), sym.and_(y, 1 << (w - 1), w), w), b_or(px, py))
            for (x, px), (y, py) in zip(vals(args[0]), vals(args[1]))]


@model(r'llvm\.(ceil|floor|trunc|rint|nearbyint|round|roundeven)\..*')
def _roundfam(ex, st, ins, args, m):
    k = m.group(1)
    mode = {'ceil': fp.RTP, 'floor': fp.RTN, 'trunc': fp.RTZ, 'round': fp.RNA, 'roundeven': fp.RNE}.get(k)
    if mode is None:
        mode = st.rm
    return lanewise1(args, lambda x, w: fp.round_int(mode, x, w))


@model(r'(ceil|floor|trunc|rint|nearbyint|round)(f?)')
def _libm_round(ex, st, ins, args, m):
    k = m.group(1)
    mode = {'ceil': fp.RTP, 'floor': fp.RTN, 'trunc': fp.RTZ, 'round': fp.RNA}.get(k)
    if mode is None:
        mode = st.rm
    return lanewise1(args, lambda x, w: fp.round_int(mode, x, w))


@model(r'llvm\.sqrt\..*|sqrtf?')
def _sqrt(ex, st, ins, args, m):
    return lanewise1(args, lambda x, w: fp.sqrt(st.rm, x, w))


@model(r'llvm\.(fma|fmuladd)\..*|fmaf?')
def _fma(ex, st, ins, args, m):
    w = W(args[0])
    return [(fp.fma(st.rm, a, b, c, w), b_or(pa, pb, pc))
            for (a, pa), (b, pb), (c, pc) in zip(vals(args[0]), vals(args[1]), vals(args[2]))]


@model(r'llvm\.(maxnum|minnum)\..*|f(max|min)f?')
def _maxnum(ex, st, ins, args, m):
    is_max = (m.group(1) == 'maxnum') or (m.group(2) == 'max')
    w = W(args[0])

    def f(a, b, w):
        na, nb_ = fp.is_nan_bits(a, w), fp.is_nan_bits(b, w)
        c = fp.fcmp('olt', a, b, w) if is_max else fp.fcmp('olt', b, a, w)
        return sym.ite(na, b, sym.ite(nb_, a, sym.ite(c, b, a, w), w), w)
    return lanewise2(args, f)


@model(r'llvm\.prefetch\..*')
def _prefetch(ex, st, ins, args, m):
    st.extra['prefetches'] = st.extra.get('prefetches', 0) + 1
    v, p = vals(args[0])[0]
    st.oblige('ub:poison-address', p, 'prefetch')
    return None


@model(r'llvm\.mem(cpy|move)\..*|memcpy|memmove')
def _memcpy(ex, st, ins, args, m):
    n = const_int(args[2], 'memcpy length')
    d = ex.resolve(st, vals(args[0])[0][0])
    s = ex.resolve(st, vals(args[1])[0][0])
    ex.log_access(st, 'R', s, n, True, True, 'memcpy')
    cells = ex.read_bytes(st, s, n, 'memcpy')
    ex.log_access(st, 'W', d, n, True, True, 'memcpy')
    ex.write_bytes(st, d, cells, True, 'memcpy')
    return vals(args[0])


@model(r'llvm\.memset\..*|memset')
def _memset(ex, st, ins, args, m):
    n = const_int(args[2], 'memset length')
    d = ex.resolve(st, vals(args[0])[0][0])
    v, p = vals(args[1])[0]
    v8 = sym.trunc(v, W(args[1]), 8)
    ex.log_access(st, 'W', d, n, True, True, 'memset')
    ex.write_bytes(st, d, [(v8, p)] * n, True, 'memset')
    return vals(args[0])


@model(r'llvm\.masked\.load\..*')
def _masked_load(ex, st, ins, args, m):
    ty = ins.ty
    n, w = ty.n, ty.lbits()
    ptr = ex.resolve(st, vals(args[0])[0][0])
    align = const_int(args[1])
    mb, mp = mask_bits(args[2], n)
    st.oblige('ub:poison-mask', mp, 'masked.load')
    pas = vals(args[3])
    out = []
    eb = w // 8
    for i in range(n):
        if mb[i] is False:
            out.append(pas[i])
            continue
        pi = Ptr(ptr.obj, sym.add(ptr.off, i * eb, 64))
        ex.log_access(st, 'R', pi, eb, mb[i], False, 'masked.load')
        ex.check_align(st, pi, min(align, eb) if align else None, mb[i], 'masked.load')
        cells = ex.read_bytes(st, pi, eb, 'masked.load')
        v = ex.value_of(llir.Ty('int', w), cells)[0]
        out.append((sym.ite(mb[i], v[0], pas[i][0], w), sym.b_ite(mb[i], v[1], pas[i][1])))
    return out


@model(r'llvm\.masked\.store\..*')
def _masked_store(ex, st, ins, args, m):
    ty = args[0][0]
    n, w = ty.n, ty.lbits()
    v = vals(args[0])
    ptr = ex.resolve(st, vals(args[1])[0][0])
    mb, mp = mask_bits(args[3], n)
    st.oblige('ub:poison-mask', mp, 'masked.store')
    eb = w // 8
    for i in range(n):
        if mb[i] is False:
            continue
        pi = Ptr(ptr.obj, sym.add(ptr.off, i * eb, 64))
        ex.log_access(st, 'W', pi, eb, mb[i], False, 'masked.store')
        cells = ex.cells_of(llir.Ty('int', w), [v[i]])
        o = st.objs.get(pi.obj)
        if o is not None and o.external:
            st.oblige('ub:poison-stored-to-caller-memory', b_and(mb[i], v[i][1]), 'masked.store')
        ex.write_bytes(st, pi, cells, mb[i], 'masked.store')
    return None


# ------------------------------------------------------------------------------------------------ libc / libm
def _libm_unary(oracle_name, ret_int=False):
    def f(ex, st, ins, args, m):
        from . import ops
        from .avtypes import VT
        w = W(args[0])
        T = VT(1, w, 'f')
        x, p = vals(args[0])[0]
        r = getattr(ops, oracle_name)(T, x)
        if ret_int:
            rw = ins.ty.lbits()
            r = sym.trunc(r, w, rw) if rw < w else (sym.sext(r, w, rw) if rw > w else r)
        return [(r, p)]
    return f


model(r'ilogbf?')(_libm_unary('o_ilogb', True))
model(r'logbf?')(_libm_unary('o_logb'))


@model(r'(ldexp|scalbn|scalbln)f?')
def _ldexp(ex, st, ins, args, m):
    from . import ops
    from .avtypes import VT
    w = W(args[0])
    T = VT(1, w, 'f')
    x, p = vals(args[0])[0]
    e, pe = vals(args[1])[0]
    ew = W(args[1])
    e2 = sym.sext(e, ew, w) if ew < w else (e if ew == w else None)
    if e2 is None:
        # long exponent for float: saturate into 32 bits (values beyond +-2^31 behave like +-2^31-1)
        big = sym.sgt(e, (1 << 31) - 1, ew)
        small = sym.slt(e, (-(1 << 31)) & M(ew), ew)
        e2 = sym.ite(big, (1 << 31) - 1, sym.ite(small, 1 << 31, sym.trunc(e, ew, w), w), w)
    saved = ops.CTX.rm
    ops.CTX.rm = st.rm
    try:
        r = ops.o_ldexp(T, x, e2)
    finally:
        ops.CTX.rm = saved
    return [(r, b_or(p, pe))]


@model(r'frexpf?')
def _frexp(ex, st, ins, args, m):
    from . import ops
    from .avtypes import VT
    w = W(args[0])
    T = VT(1, w, 'f')
    x, p = vals(args[0])[0]
    ptr = ex.resolve(st, vals(args[1])[0][0])
    e = ops.o_frexp_e(T, x)
    e32 = sym.trunc(e, w, 32) if w > 32 else e
    # exponent is unspecified for inf/NaN: glibc stores 0
    sign, exf, mant, sb, eb = ops.fields(T, x)
    e32 = sym.ite(sym.eq(exf, M(eb), eb), 0, e32, 32)
    ex.write_bytes(st, ptr, ex.cells_of(llir.I32, [(e32, p)]), True, 'frexp')
    return [(ops.o_frexp_m(T, x), p)]


@model(r'fmodf?')
def _fmod(ex, st, ins, args, m):
    w = W(args[0])
    return [(fp.binop('frem', st.rm, a, b, w), b_or(pa, pb)) for (a, pa), (b, pb) in zip(vals(args[0]), vals(args[1]))]


# ------------------------------------------------------------------------------------------------ x86: shifts
@model(r'llvm\.x86\.(sse2|avx2|avx512)\.(psll|psrl|psra)\.([wdq])(\.\d+)?')
def _pshift(ex, st, ins, args, m):
    kind = m.group(2)
    w = W(args[0])
    c = vals(args[1])
    cw = W(args[1])
    k = 64 // cw
    cnt, _ = sym.concat([(x, cw) for x, _ in c[:k]])
    pc = b_or(*[p for _, p in c[:k]])
    big = sym.uge(cnt, w, 64)
    sh = sym.trunc(cnt, 64, w)
    out = []
    for x, px in vals(args[0]):
        if kind == 'psll':
            r = sym.ite(big, 0, sym.shl(x, sh, w), w)
        elif kind == 'psrl':
            r = sym.ite(big, 0, sym.lshr(x, sh, w), w)
        else:
            r = sym.ite(big, sym.ashr(x, w - 1, w), sym.ashr(x, sh, w), w)
        out.append((r, b_or(px, pc)))
    return out


@model(r'llvm\.x86\.(sse2|avx2|avx512)\.(pslli|psrli|psrai)\.([wdq])(\.\d+)?')
def _pshifti(ex, st, ins, args, m):
    kind = m.group(2)
    w = W(args[0])
    cnt, pc = vals(args[1])[0]
    cw = W(args[1])
    big = sym.uge(cnt, w, cw)
    sh = sym.trunc(cnt, cw, w) if cw > w else sym.zext(cnt, cw, w)
    out = []
    for x, px in vals(args[0]):
        if kind == 'pslli':
            r = sym.ite(big, 0, sym.shl(x, sh, w), w)
        elif kind == 'psrli':
            r = sym.ite(big, 0, sym.lshr(x, sh, w), w)
        else:
            r = sym.ite(big, sym.ashr(x, w - 1, w), sym.ashr(x, sh, w), w)
        out.append((r, b_or(px, pc)))
    return out


@model(r'llvm\.x86\.(avx2|avx512)\.(psllv|psrlv|psrav)\.([wdq])(\.\d+)?')
def _pshiftv(ex, st, ins, args, m):
    kind = m.group(2)

    def f(x, c, w):
        big = sym.uge(c, w, w)
        if kind == 'psllv':
            return sym.ite(big, 0, sym.shl(x, c, w), w)
        if kind == 'psrlv':
            return sym.ite(big, 0, sym.lshr(x, c, w), w)
        return sym.ite(big, sym.ashr(x, w - 1, w), sym.ashr(x, c, w), w)
    return lanewise2(args, f)


# ------------------------------------------------------------------------------------------------ x86: integer misc
@model(r'llvm\.x86\.(ssse3|avx2|avx512)\.pshuf\.b(\.\d+)?')
def _pshufb(ex, st, ins, args, m):
    a, c = vals(args[0]), vals(args[1])
    n = len(a)
    out = []
    for i in range(n):
        base = i // 16 * 16
        ci, pci = c[i]
        if isinstance(ci, int):
            if ci & 0x80:
                out.append((0, pci))
            else:
                s = a[base + (ci & 15)]
                out.append((s[0], b_or(pci, s[1])))
            continue
        idx = z3.Extract(3, 0, ci)
        r = a[base + 15][0]
        rp = a[base + 15][1]
        for k in range(14, -1, -1):
            cond = idx == k
            r = sym.ite(cond, a[base + k][0], r, 8)
            rp = sym.b_ite(cond, a[base + k][1], rp)
        hi = z3.Extract(7, 7, ci) == 1
        out.append((sym.ite(hi, 0, r, 8), b_or(pci, sym.b_ite(hi, False, rp))))
    return out


@model(r'llvm\.x86\.(sse2|avx2|avx512)\.pavg\.([bw])(\.\d+)?')
def _pavg(ex, st, ins, args, m):
    def f(x, y, w):
        s = sym.add(sym.add(sym.zext(x, w, w + 1), sym.zext(y, w, w + 1), w + 1), 1, w + 1)
        return sym.trunc(sym.lshr(s, 1, w + 1), w + 1, w)
    return lanewise2(args, f)


@model(r'llvm\.x86\.(sse2|sse41|avx2|avx512)\.(packsswb|packssdw|packuswb|packusdw)(\.\d+)?')
def _pack(ex, st, ins, args, m):
    kind = m.group(2)
    a, b = vals(args[0]), vals(args[1])
    w = W(args[0])
    wo = w // 2
    per = 128 // w
    satf = sat_s if kind.startswith('packss') else sat_u_from_s
    out = []
    for lane in range(len(a) // per):
        for src in (a, b):
            for k in range(per):
                x, p = src[lane * per + k]
                out.append((satf(x, w, wo), p))
    return out


@model(r'llvm\.x86\.(ssse3|avx2)\.psign\.([bwd])(\.\d+)?')
def _psign(ex, st, ins, args, m):
    def f(x, y, w):
        return sym.ite(sym.slt(y, 0, w), sym.neg(x, w), sym.ite(sym.eq(y, 0, w), 0, x, w), w)
    return lanewise2(args, f)


@model(r'llvm\.x86\.(ssse3|avx2|avx512)\.(pmadd\.ub\.sw|pmaddubs\.w)(\.\d+)?')
def _pmaddubsw(ex, st, ins, args, m):
    a, b = vals(args[0]), vals(args[1])
    out = []
    for i in range(len(a) // 2):
        t = None
        p = False
        for k in (0, 1):
            (x, px), (y, py) = a[2 * i + k], b[2 * i + k]
            pr = sym.mul(sym.zext(x, 8, 18), sym.sext(y, 8, 18), 18)
            t = pr if t is None else sym.add(t, pr, 18)
            p = b_or(p, px, py)
        out.append((sat_s(t, 18, 16), p))
    return out


@model(r'llvm\.x86\.(sse2|avx2|avx512)\.(pmadd\.wd|pmaddw\.d)(\.\d+)?')
def _pmaddwd(ex, st, ins, args, m):
    a, b = vals(args[0]), vals(args[1])
    out = []
    for i in range(len(a) // 2):
        t = None
        p = False
        for k in (0, 1):
            (x, px), (y, py) = a[2 * i + k], b[2 * i + k]
            pr = sym.mul(sym.sext(x, 16, 32), sym.sext(y, 16, 32), 32)
            t = pr if t is None else sym.add(t, pr, 32)
            p = b_or(p, px, py)
        out.append((t, p))
    return out


@model(r'llvm\.x86\.(ssse3|avx2)\.(phadd|phsub)\.([wd])(\.\d+)?')
def _phadd(ex, st, ins, args, m):
    a, b = vals(args[0]), vals(args[1])
    w = W(args[0])
    per = 128 // w
    f = sym.add if m.group(2) == 'phadd' else sym.sub
    out = []
    for lane in range(len(a) // per):
        for src in (a, b):
            for k in range(per // 2):
                (x, px), (y, py) = src[lane * per + 2 * k], src[lane * per + 2 * k + 1]
                out.append((f(x, y, w), b_or(px, py)))
    return out


@model(r'llvm\.x86\.(sse2|avx2|avx512)\.(pmulhu|pmulh)\.w(\.\d+)?')
def _pmulh(ex, st, ins, args, m):
    ext = sym.zext if m.group(2) == 'pmulhu' else sym.sext

    def f(x, y, w):
        return sym.extract(sym.mul(ext(x, 16, 32), ext(y, 16, 32), 32), 31, 16, 32)
    return lanewise2(args, f)


@model(r'llvm\.x86\.(sse2|avx2|avx512)\.psad\.bw(\.\d+)?')
def _psadbw(ex, st, ins, args, m):
    a, b = vals(args[0]), vals(args[1])
    out = []
    for q in range(len(a) // 8):
        t = 0
        p = False
        for k in range(8):
            (x, px), (y, py) = a[8 * q + k], b[8 * q + k]
            d = sym.ite(sym.ult(x, y, 8), sym.sub(y, x, 8), sym.sub(x, y, 8), 8)
            t = sym.add(t, sym.zext(d, 8, 64), 64)
            p = b_or(p, px, py)
        out.append((t, p))
    return out


@model(r'llvm\.x86\.(sse41|avx)\.(ptestz|ptestc|ptestnzc)(\.\d+)?')
def _ptest(ex, st, ins, args, m):
    a, b = vals(args[0]), vals(args[1])
    w = W(args[0])
    k = m.group(2)
    z = b_and(*[sym.eq(sym.and_(x, y, w), 0, w) for (x, _), (y, _) in zip(a, b)])
    c = b_and(*[sym.eq(sym.and_(sym.not_(x, w), y, w), 0, w) for (x, _), (y, _) in zip(a, b)])
    p = b_or(*[q for _, q in a + b])
    r = z if k == 'ptestz' else (c if k == 'ptestc' else b_and(b_not(z), b_not(c)))
    return [(sym.b2bv(r, 32), p)]


@model(r'llvm\.x86\.(sse41|avx|avx2)\.(blendvps|blendvpd|pblendvb|blendv\.ps|blendv\.pd)(\.\d+)?')
def _blendv(ex, st, ins, args, m):
    w = W(args[0])
    out = []
    for (a, pa), (b, pb), (c, pc) in zip(vals(args[0]), vals(args[1]), vals(args[2])):
        s = sym.truth(sym.extract(c, w - 1, w - 1, w))
        out.append((sym.ite(s, b, a, w), b_or(pc, sym.b_ite(s, pb, pa))))
    return out


@model(r'llvm\.x86\.avx512\.pternlog\.([dq])\.(\d+)')
def _pternlog(ex, st, ins, args, m):
    imm = const_int(args[3])
    w = W(args[0])
    out = []
    for (a, pa), (b, pb), (c, pc) in zip(vals(args[0]), vals(args[1]), vals(args[2])):
        r = 0
        for idx in range(8):
            if (imm >> idx) & 1:
                t = M(w)
                t = sym.and_(t, a if idx & 4 else sym.not_(a, w), w)
                t = sym.and_(t, b if idx & 2 else sym.not_(b, w), w)
                t = sym.and_(t, c if idx & 1 else sym.not_(c, w), w)
                r = sym.or_(r, t, w)
        out.append((r, b_or(pa, pb, pc)))
    return out


def _table_lookup(tab, idx, w, nbits):
    """tab: list of (v,p) with w-bit entries; idx: lane; select entry idx[nbits-1:0]"""
    if isinstance(idx, int):
        return tab[idx & ((1 << nbits) - 1)]
    sel = z3.Extract(nbits - 1, 0, idx)

    def rec(lo, hi, bit):
        if hi - lo == 1:
            return tab[lo]
        mid = (lo + hi) // 2
        l = rec(lo, mid, bit - 1)
        h = rec(mid, hi, bit - 1)
        c = z3.Extract(bit, bit, sel) == 1
        return (sym.ite(c, h[0], l[0], w), sym.b_ite(c, h[1], l[1]))
    return rec(0, 1 << nbits, nbits - 1)


@model(r'llvm\.x86\.avx512\.vpermi2var\.(qi|hi|d|q)\.(\d+)')
def _vpermi2(ex, st, ins, args, m):
    a, idx, b = vals(args[0]), vals(args[1]), vals(args[2])
    n = len(a)
    nb = n.bit_length()      # log2(2n)
    tab = a + b
    w = W(args[0])
    out = []
    for i in range(n):
        v = _table_lookup(tab, idx[i][0], w, nb)
        out.append((v[0], b_or(v[1], idx[i][1])))
    return out


@model(r'llvm\.x86\.avx512\.(permvar|vpermvar)\.(qi|hi|si|di|sf|df)\.(\d+)|llvm\.x86\.avx2\.perm(d|ps)')
def _permvar(ex, st, ins, args, m):
    a, idx = vals(args[0]), vals(args[1])
    n = len(a)
    nb = n.bit_length() - 1
    w = W(args[0])
    out = []
    for i in range(n):
        v = _table_lookup(a, idx[i][0], w, nb)
        out.append((v[0], b_or(v[1], idx[i][1])))
    return out


@model(r'llvm\.x86\.vgf2p8affineqb\.(\d+)')
def _gf2p8affine(ex, st, ins, args, m):
    x, A = vals(args[0]), vals(args[1])
    imm = const_int(args[2])
    out = []
    for i in range(len(x)):
        q = i // 8 * 8
        xv, px = x[i]
        bits = []
        p = px
        for bit in range(8):
            row, pr = A[q + 7 - bit]
            p = b_or(p, pr)
            t = sym.and_(row, xv, 8)
            if isinstance(t, int):
                par = bin(t).count('1') & 1
            else:
                par = z3.Extract(0, 0, t)
                for k in range(1, 8):
                    par = par ^ z3.Extract(k, k, t)
            bits.append((sym.xor(par, (imm >> bit) & 1, 1), 1))
        v, _ = sym.concat(bits)
        out.append((v, p))
    return out


@model(r'llvm\.x86\.avx512\.(pmov|pmovs|pmovus)\.(\w+)\.(\d+)|llvm\.x86\.avx512\.mask\.(pmov|pmovs|pmovus)\.(\w+)\.(\d+)')
def _pmov(ex, st, ins, args, m):
    kind = m.group(1) or m.group(4)
    w = W(args[0])
    wo = ins.ty.lbits()
    src = vals(args[0])
    res = []
    for x, p in src:
        if kind == 'pmov':
            r = sym.trunc(x, w, wo)
        elif kind == 'pmovs':
            r = sat_s(x, w, wo)
        else:
            r = sym.ite(sym.ugt(x, M(wo), w), M(wo), sym.trunc(x, w, wo), wo)
        res.append((r, p))
    n_out = ins.ty.n
    res += [(0, False)] * (n_out - len(res))
    if len(args) >= 3:
        pas = vals(args[1])
        mb, mp = mask_bits(args[2], len(src))
        out = []
        for i in range(n_out):
            if i < len(src):
                out.append((sym.ite(mb[i], res[i][0], pas[i][0], wo), b_or(mp, sym.b_ite(mb[i], res[i][1], pas[i][1]))))
            else:
                out.append((0, False))
        return out
    return res


@model(r'llvm\.x86\.avx512\.(conflict)\.([dq])\.(\d+)')
def _conflict(ex, st, ins, args, m):
    a = vals(args[0])
    w = W(args[0])
    out = []
    for i in range(len(a)):
        r = 0
        p = a[i][1]
        for j in range(i):
            r = sym.or_(r, sym.ite(sym.eq(a[i][0], a[j][0], w), 1 << j, 0, w), w)
            p = b_or(p, a[j][1])
        out.append((r, p))
    return out


@model(r'llvm\.x86\.avx512\.(vpshufbitqmb)\.(\d+)')
def _vpshufbitqmb(ex, st, ins, args, m):
    a, c = vals(args[0]), vals(args[1])
    out = []
    for i in range(len(a)):
        q = i // 8 * 8
        qv, _ = sym.concat([(a[q + k][0], 8) for k in range(8)])
        pq = b_or(*[a[q + k][1] for k in range(8)])
        idx = sym.zext(sym.and_(c[i][0], 63, 8), 8, 64)
        bit = sym.trunc(sym.lshr(qv, idx, 64), 64, 1)
        out.append((bit, b_or(pq, c[i][1])))
    return out


@model(r'llvm\.x86\.(bmi|tbm)\.(bextr|bzhi|pdep|pext)\.(32|64)')
def _bmi(ex, st, ins, args, m):
    k = m.group(2)
    w = int(m.group(3))
    (x, px), (y, py) = vals(args[0])[0], vals(args[1])[0]
    p = b_or(px, py)
    if k == 'bzhi':
        n = sym.and_(y, 255, w)
        r = sym.ite(sym.uge(n, w, w), x, sym.and_(x, sym.sub(sym.shl(1, n, w), 1, w), w), w)
        return [(r, p)]
    if k == 'bextr':
        start = sym.and_(y, 255, w)
        ln = sym.and_(sym.lshr(y, 8, w), 255, w)
        sh = sym.ite(sym.uge(start, w, w), 0, sym.lshr(x, start, w), w)
        msk = sym.ite(sym.uge(ln, w, w), M(w), sym.sub(sym.shl(1, ln, w), 1, w), w)
        return [(sym.and_(sh, msk, w), p)]
    if k in ('pdep', 'pext'):
        if not isinstance(y, int):
            raise NotEncodable('pdep/pext with symbolic mask')
        r = 0
        j = 0
        for i in range(w):
            if (y >> i) & 1:
                if k == 'pdep':
                    r = sym.or_(r, sym.shl(sym.and_(sym.lshr(x, j, w), 1, w), i, w), w)
                else:
                    r = sym.or_(r, sym.shl(sym.and_(sym.lshr(x, i, w), 1, w), j, w), w)
                j += 1
        return [(r, p)]
    raise NotEncodable(k)


# ------------------------------------------------------------------------------------------------ x86: floating point
def x86_minmax(a, b, w, is_max):
    c = fp.fcmp('ogt', a, b, w) if is_max else fp.fcmp('olt', a, b, w)
    return sym.ite(c, a, b, w)


@model(r'llvm\.x86\.(sse|sse2|avx|avx512)\.(min|max)\.(ps|pd|ss|sd)(\.\d+)?')
def _x86minmax(ex, st, ins, args, m):
    is_max = m.group(2) == 'max'
    scalar = m.group(3) in ('ss', 'sd')
    w = W(args[0])
    a, b = vals(args[0]), vals(args[1])
    out = []
    for i, ((x, px), (y, py)) in enumerate(zip(a, b)):
        if scalar and i > 0:
            out.append((x, px))
        else:
            out.append((x86_minmax(x, y, w, is_max), b_or(px, py)))
    return out


def imm_round_mode(st, imm):
    """SSE4.1 / AVX-512 rounding immediate -> z3 rounding mode"""
    if imm & 4:
        return st.rm
    return [fp.RNE, fp.RTN, fp.RTP, fp.RTZ][imm & 3]


@model(r'llvm\.x86\.(sse41|avx)\.round\.(ps|pd)(\.\d+)?')
def _round(ex, st, ins, args, m):
    imm = const_int(args[1])
    mode = imm_round_mode(st, imm)
    return lanewise1(args, lambda x, w: fp.round_int(mode, x, w))


@model(r'llvm\.x86\.(sse41)\.round\.(ss|sd)')
def _round_s(ex, st, ins, args, m):
    imm = const_int(args[2])
    mode = imm_round_mode(st, imm)
    a, b = vals(args[0]), vals(args[1])
    w = W(args[0])
    return [(fp.round_int(mode, b[0][0], w), b[0][1])] + a[1:]


@model(r'llvm\.x86\.avx512\.mask\.rndscale\.(ps|pd)\.(\d+)')
def _rndscale(ex, st, ins, args, m):
    imm = const_int(args[1])
    if imm >> 4:
        raise NotEncodable('rndscale with scale != 0')
    mode = imm_round_mode(st, imm)
    w = W(args[0])
    res = [(fp.round_int(mode, x, w), p) for x, p in vals(args[0])]
    return masked(res, vals(args[2]), args[3], w)


def cvt_indefinite(w, unsigned):
    return M(w) if unsigned else 1 << (w - 1)


def _cvt_lane(st, x, wf, wi, trunc, unsigned):
    mode = fp.RTZ if trunc else st.rm
    v, ok = fp.fp_to_int(x, wf, wi, not unsigned, mode)
    return sym.ite(ok, v, cvt_indefinite(wi, unsigned), wi)


@model(r'llvm\.x86\.(sse2|avx)\.(cvt|cvtt)\.?(ps2dq|pd2dq)(\.\d+)?')
def _cvtps2dq(ex, st, ins, args, m):
    trunc = m.group(2) == 'cvtt'
    wf = W(args[0])
    out = [(_cvt_lane(st, x, wf, 32, trunc, False), p) for x, p in vals(args[0])]
    n = ins.ty.n
    return out + [(0, False)] * (n - len(out))


@model(r'llvm\.x86\.(sse|sse2)\.(cvt|cvtt)(ss|sd)2si(64)?')
def _cvtsd2si(ex, st, ins, args, m):
    trunc = m.group(2) == 'cvtt'
    wf = W(args[0])
    wi = ins.ty.bits
    x, p = vals(args[0])[0]
    return [(_cvt_lane(st, x, wf, wi, trunc, False), p)]


@model(r'llvm\.x86\.avx512\.mask\.(cvt|cvtt)(ps|pd)2(u?)(dq|qq)\.(\d+)')
def _cvt512(ex, st, ins, args, m):
    trunc = m.group(1) == 'cvtt'
    unsigned = m.group(3) == 'u'
    wf = W(args[0])
    wi = ins.ty.lbits()
    src = vals(args[0])
    rm_saved = st.rm
    if len(args) >= 4:
        r = const_int(args[3])
        if r != 4 and not trunc:
            if r & 8 or r in (0, 1, 2, 3):
                st_rm = [fp.RNE, fp.RTN, fp.RTP, fp.RTZ][r & 3]
            else:
                raise NotEncodable('rounding argument %d' % r)
        else:
            st_rm = st.rm
    else:
        st_rm = st.rm
    res = []
    for x, p in src:
        mode = fp.RTZ if trunc else st_rm
        v, ok = fp.fp_to_int(x, wf, wi, not unsigned, mode)
        res.append((sym.ite(ok, v, cvt_indefinite(wi, unsigned), wi), p))
    n = ins.ty.n
    res += [(0, False)] * (n - len(res))
    pas = vals(args[1])
    mb, mp = mask_bits(args[2], len(src))
    out = []
    for i in range(n):
        if i < len(src):
            out.append((sym.ite(mb[i], res[i][0], pas[i][0], wi), b_or(mp, sym.b_ite(mb[i], res[i][1], pas[i][1]))))
        else:
            out.append((0, False))
    return out


@model(r'llvm\.x86\.avx512\.(sitofp|uitofp)\.round\..*')
def _itofp_round(ex, st, ins, args, m):
    r = const_int(args[1])
    mode = st.rm if r == 4 else [fp.RNE, fp.RTN, fp.RTP, fp.RTZ][r & 3]
    wi = W(args[0])
    wf = ins.ty.lbits()
    return [(fp.si_to_fp(mode, x, wi, wf, m.group(1) == 'sitofp'), p) for x, p in vals(args[0])]


@model(r'llvm\.x86\.avx512\.(add|sub|mul|div)\.(ps|pd)\.512')
def _arith512(ex, st, ins, args, m):
    r = const_int(args[2])
    mode = st.rm if r == 4 else [fp.RNE, fp.RTN, fp.RTP, fp.RTZ][r & 3]
    opn = 'f' + m.group(1)
    return lanewise2(args, lambda x, y, w: fp.binop(opn, mode, x, y, w))


@model(r'llvm\.x86\.avx512\.sqrt\.(ps|pd)\.512')
def _sqrt512(ex, st, ins, args, m):
    # embedded rounding: 4 = MXCSR.RC, 8..11 = static mode with SAE
    r = const_int(args[1])
    mode = st.rm if r == 4 else [fp.RNE, fp.RTN, fp.RTP, fp.RTZ][r & 3]
    return lanewise1(args[:1], lambda x, w: fp.sqrt(mode, x, w))


@model(r'llvm\.x86\.avx512\.vfmadd\.(ps|pd)\.512')
def _fma512(ex, st, ins, args, m):
    r = const_int(args[3])
    mode = st.rm if r == 4 else [fp.RNE, fp.RTN, fp.RTP, fp.RTZ][r & 3]
    w = W(args[0])
    return [(fp.fma(mode, a, b, c, w), b_or(pa, pb, pc))
            for (a, pa), (b, pb), (c, pc) in zip(vals(args[0]), vals(args[1]), vals(args[2]))]


@model(r'llvm\.x86\.avx512\.fpclass\.(ps|pd)\.(\d+)')
def _fpclass(ex, st, ins, args, m):
    imm = const_int(args[1])
    w = W(args[0])
    sb, eb = fp.SB[w], fp.EB[w]
    out = []
    for x, p in vals(args[0]):
        sign = sym.truth(sym.extract(x, w - 1, w - 1, w))
        e = sym.extract(x, w - 2, sb - 1, w)
        mant = sym.extract(x, sb - 2, 0, w)
        q = sym.truth(sym.extract(x, sb - 2, sb - 2, w))
        emax = sym.eq(e, M(eb), eb)
        ezero = sym.eq(e, 0, eb)
        mzero = sym.eq(mant, 0, sb - 1)
        nan = b_and(emax, b_not(mzero))
        cls = [b_and(nan, q), b_and(ezero, mzero, b_not(sign)), b_and(ezero, mzero, sign),
               b_and(emax, mzero, b_not(sign)), b_and(emax, mzero, sign), b_and(ezero, b_not(mzero)),
               b_and(sign, b_not(emax), b_not(b_and(ezero, mzero))), b_and(nan, b_not(q))]
        r = b_or(*[c for i, c in enumerate(cls) if (imm >> i) & 1])
        out.append((sym.b2bv(r), p))
    return out


def _norm(x, w):
    """for finite non-zero x: (signed unbiased exponent as 16-bit, normalised mantissa field)"""
    from . import ops
    from .avtypes import VT
    return ops.norm_exp_mant(VT(1, w, 'f'), x)


@model(r'llvm\.x86\.avx512\.mask\.getexp\.(ps|pd)\.(\d+)')
def _getexp(ex, st, ins, args, m):
    w = W(args[0])
    sb, eb = fp.SB[w], fp.EB[w]
    pinf = M(eb) << (sb - 1)
    res = []
    for x, p in vals(args[0]):
        e = sym.extract(x, w - 2, sb - 1, w)
        mant = sym.extract(x, sb - 2, 0, w)
        emax = sym.eq(e, M(eb), eb)
        zero = b_and(sym.eq(e, 0, eb), sym.eq(mant, 0, sb - 1))
        nan = b_and(emax, sym.ne(mant, 0, sb - 1))
        ue, _ = _norm(x, w)
        ef = fp.si_to_fp(fp.RNE, sym.sext(ue, 16, 32), 32, w, True)
        r = sym.ite(nan, sym.or_(x, fp.quiet_bit(w), w), sym.ite(emax, pinf, sym.ite(zero, pinf | (1 << (w - 1)), ef, w), w), w)
        res.append((r, p))
    return masked(res, vals(args[1]), args[2], w)


@model(r'llvm\.x86\.avx512\.mask\.getmant\.(ps|pd)\.(\d+)')
def _getmant(ex, st, ins, args, m):
    w = W(args[0])
    sb, eb = fp.SB[w], fp.EB[w]
    bias = (1 << (eb - 1)) - 1
    imm = const_int(args[1])
    interv = imm & 3
    sc = (imm >> 2) & 3
    res = []
    for x, p in vals(args[0]):
        sign = sym.extract(x, w - 1, w - 1, w)
        e = sym.extract(x, w - 2, sb - 1, w)
        mant = sym.extract(x, sb - 2, 0, w)
        emax = sym.eq(e, M(eb), eb)
        zero = b_and(sym.eq(e, 0, eb), sym.eq(mant, 0, sb - 1))
        nan = b_and(emax, sym.ne(mant, 0, sb - 1))
        ue, mant_n = _norm(x, w)
        odd = sym.truth(sym.extract(ue, 0, 0, 16))
        top = sym.truth(sym.extract(mant_n, sb - 2, sb - 2, sb - 1))
        if interv == 0:
            ex_f = bias
        elif interv == 1:
            ex_f = sym.ite(odd, bias - 1, bias, eb)
        elif interv == 2:
            ex_f = bias - 1
        else:
            ex_f = sym.ite(top, bias - 1, bias, eb)
        osign = 0 if sc & 1 else sign
        normal, _ = sym.concat([(mant_n, sb - 1), (ex_f, eb), (osign, 1)])
        special, _ = sym.concat([(0, sb - 1), (bias, eb), (osign, 1)])      # +-1.0 for zero / inf
        r = sym.ite(b_or(zero, b_and(emax, b_not(nan))), special, normal, w)
        if sc & 2:
            r = sym.ite(sym.truth(sign), fp.qnan_default(w), r, w)
        r = sym.ite(nan, sym.or_(x, fp.quiet_bit(w), w), r, w)
        res.append((r, p))
    return masked(res, vals(args[2]), args[3], w)


def _pow2_scale(st, a, k, w, mode):
    """a * 2^k with one rounding; k: signed 32-bit lane already clamped to [-5000, 5000]"""
    sb = fp.SB[w]
    EBW = 15
    wide = z3.FPSort(EBW, sb)
    bias = (1 << (EBW - 1)) - 1
    expf = z3.Extract(EBW - 1, 0, bv(k, 32) + bias)
    p2 = z3.fpFP(z3.BitVecVal(0, 1), expf, z3.BitVecVal(0, sb - 1))
    xw = z3.fpFPToFP(fp.RNE, fp.to_fp(a, w), wide)
    prod = z3.fpMul(fp.RNE, xw, p2)
    return z3.fpFPToFP(mode, prod, fp.SORT[w])


@model(r'llvm\.x86\.avx512\.mask\.scalef\.(ps|pd)\.(\d+)')
def _scalef(ex, st, ins, args, m):
    w = W(args[0])
    sb, eb = fp.SB[w], fp.EB[w]
    mode = st.rm
    if len(args) >= 5:
        r = const_int(args[4])
        mode = st.rm if r == 4 else [fp.RNE, fp.RTN, fp.RTP, fp.RTZ][r & 3]
    pinf = M(eb) << (sb - 1)
    res = []
    for (a, pa), (b, pb) in zip(vals(args[0]), vals(args[1])):
        fb = fp.to_fp(b, w)
        fl = z3.fpRoundToIntegral(fp.RTN, fb)
        lim = z3.FPVal(5000.0, fp.SORT[w])
        flc = z3.If(z3.fpGT(fl, lim), lim, z3.If(z3.fpLT(fl, z3.fpNeg(lim)), z3.fpNeg(lim), fl))
        k = z3.fpToSBV(fp.RTZ, flc, z3.BitVecSort(32))
        prod = _pow2_scale(st, a, k, w, mode)
        main = z3.fpToIEEEBV(prod)
        na, nb_ = fp.is_nan_bits(a, w), fp.is_nan_bits(b, w)
        amag = sym.and_(a, M(w - 1), w)
        asign = sym.and_(a, 1 << (w - 1), w)
        a_zero = sym.eq(amag, 0, w)
        a_inf = sym.eq(amag, pinf, w)
        b_pinf = sym.eq(b, pinf, w)
        b_ninf = sym.eq(b, pinf | (1 << (w - 1)), w)
        q = fp.quiet_bit(w)
        r = sym.ite(na, sym.or_(a, q, w),
            sym.ite(nb_, sym.or_(b, q, w),
            sym.ite(b_pinf, sym.ite(a_zero, fp.qnan_default(w), sym.or_(asign, pinf, w), w),
            sym.ite(b_ninf, sym.ite(a_inf, fp.qnan_default(w), asign, w),
            sym.ite(b_or(a_inf, a_zero), a, main, w), w), w), w), w)
        res.append((fp.done(r, a, b), b_or(pa, pb)))
    return masked(res, vals(args[2]), args[3], w)


FIXUP_CONST = {
    32: {7: 0x80000000, 8: 0, 9: 0xBF800000, 10: 0x3F800000, 11: 0x3F000000, 12: 0x42B40000, 13: 0x3FC90FDB,
         14: 0x7F7FFFFF, 15: 0xFF7FFFFF, 4: 0xFF800000, 5: 0x7F800000},
    64: {7: 1 << 63, 8: 0, 9: 0xBFF0000000000000, 10: 0x3FF0000000000000, 11: 0x3FE0000000000000,
         12: 0x4056800000000000, 13: 0x3FF921FB54442D18, 14: 0x7FEFFFFFFFFFFFFF, 15: 0xFFEFFFFFFFFFFFFF,
         4: 0xFFF0000000000000, 5: 0x7FF0000000000000},
}


@model(r'llvm\.x86\.avx512\.(mask|maskz)\.fixupimm\.(ps|pd)\.(\d+)')
def _fixupimm(ex, st, ins, args, m):
    w = W(args[0])
    sb, eb = fp.SB[w], fp.EB[w]
    zmask = m.group(1) == 'maskz'
    res = []
    for (a, pa), (b, pb), (c, pc) in zip(vals(args[0]), vals(args[1]), vals(args[2])):
        sign = sym.truth(sym.extract(b, w - 1, w - 1, w))
        e = sym.extract(b, w - 2, sb - 1, w)
        mant = sym.extract(b, sb - 2, 0, w)
        emax = sym.eq(e, M(eb), eb)
        mzero = sym.eq(mant, 0, sb - 1)
        zero = b_and(sym.eq(e, 0, eb), mzero)
        nan = b_and(emax, b_not(mzero))
        qn = b_and(nan, sym.truth(sym.extract(b, sb - 2, sb - 2, w)))
        one = sym.eq(b, FIXUP_CONST[w][10], w)
        inf = b_and(emax, mzero)
        # token: QNAN 0, SNAN 1, ZERO 2, POS_ONE 3, NEG_INF 4, POS_INF 5, NEG 6, POS 7
        tok = sym.ite(qn, 0, sym.ite(nan, 1, sym.ite(zero, 2, sym.ite(one, 3, sym.ite(b_and(inf, sign), 4,
              sym.ite(inf, 5, sym.ite(sign, 6, 7, 32), 32), 32), 32), 32), 32), 32)
        c32 = sym.trunc(c, w, 32) if w > 32 else c
        resp = sym.and_(sym.lshr(c32, sym.mul(tok, 4, 32), 32), 15, 32)
        K = FIXUP_CONST[w]
        cands = {0: a, 1: b, 2: sym.or_(b, fp.quiet_bit(w), w), 3: fp.qnan_default(w), 4: K[4], 5: K[5],
                 6: sym.ite(sign, K[4], K[5], w)}
        for k in range(7, 16):
            cands[k] = K[k]
        r = cands[15]
        for k in range(14, -1, -1):
            r = sym.ite(sym.eq(resp, k, 32), cands[k], r, w)
        res.append((r, b_or(pa, pb, pc)))
    src = [(0, False)] * len(res) if zmask else vals(args[0])
    return masked(res, src, args[4], w)


@model(r'llvm\.x86\.avx512\.mask\.range\.(ps|pd)\.(\d+)')
def _range(ex, st, ins, args, m):
    w = W(args[0])
    imm = const_int(args[2])
    opsel = imm & 3
    sc = (imm >> 2) & 3
    q = fp.quiet_bit(w)
    res = []
    for (a, pa), (b, pb) in zip(vals(args[0]), vals(args[1])):
        na, nb_ = fp.is_nan_bits(a, w), fp.is_nan_bits(b, w)
        fa, fb = fp.to_fp(a, w), fp.to_fp(b, w)
        amag, bmag = sym.and_(a, M(w - 1), w), sym.and_(b, M(w - 1), w)
        asg = sym.truth(sym.extract(a, w - 1, w - 1, w))
        bsg = sym.truth(sym.extract(b, w - 1, w - 1, w))
        if opsel == 0:      # min
            lt_ = fp.fcmp('olt', a, b, w); eq_ = fp.fcmp('oeq', a, b, w)
            pick_a = b_or(lt_, b_and(eq_, b_or(asg, b_not(bsg))))     # equal: prefer negative zero
        elif opsel == 1:    # max
            gt_ = fp.fcmp('ogt', a, b, w); eq_ = fp.fcmp('oeq', a, b, w)
            pick_a = b_or(gt_, b_and(eq_, b_or(b_not(asg), bsg)))     # equal: prefer positive zero
        elif opsel == 2:    # min abs
            lt_ = sym.ult(amag, bmag, w); eq_ = sym.eq(amag, bmag, w)
            pick_a = b_or(lt_, b_and(eq_, b_or(asg, b_not(bsg))))
        else:               # max abs
            gt_ = sym.ugt(amag, bmag, w); eq_ = sym.eq(amag, bmag, w)
            pick_a = b_or(gt_, b_and(eq_, b_or(b_not(asg), bsg)))
        r = sym.ite(pick_a, a, b, w)
        if sc == 0:
            r = sym.or_(sym.and_(r, M(w - 1), w), sym.and_(a, 1 << (w - 1), w), w)
        elif sc == 2:
            r = sym.and_(r, M(w - 1), w)
        elif sc == 3:
            r = sym.or_(r, 1 << (w - 1), w)
        # NaN rules: SNaN in a -> quieted a; else SNaN in b -> quieted b; QNaN in exactly one operand -> the other; both -> a
        asn = b_and(na, b_not(sym.truth(sym.extract(a, fp.SB[w] - 2, fp.SB[w] - 2, w))))
        bsn = b_and(nb_, b_not(sym.truth(sym.extract(b, fp.SB[w] - 2, fp.SB[w] - 2, w))))
        r = sym.ite(asn, sym.or_(a, q, w), sym.ite(bsn, sym.or_(b, q, w),
            sym.ite(b_and(na, nb_), a, sym.ite(na, b, sym.ite(nb_, a, r, w), w), w), w), w)
        res.append((r, b_or(pa, pb)))
    return masked(res, vals(args[3]), args[4], w)


@model(r'llvm\.x86\.avx512\.mask\.(reduce)\.(ps|pd)\.(\d+)')
def _reduce(ex, st, ins, args, m):
    raise NotEncodable('vreduce')


@model(r'llvm\.x86\.sse\.stmxcsr')
def _stmxcsr(ex, st, ins, args, m):
    ptr = ex.resolve(st, vals(args[0])[0][0])
    ex.write_bytes(st, ptr, ex.cells_of(llir.I32, [(st.mxcsr, False)]), True, 'stmxcsr')
    return None


@model(r'llvm\.x86\.sse\.ldmxcsr')
def _ldmxcsr(ex, st, ins, args, m):
    ptr = ex.resolve(st, vals(args[0])[0][0])
    v, p = ex.value_of(llir.I32, ex.read_bytes(st, ptr, 4, 'ldmxcsr'))[0]
    st.oblige('ub:poison-mxcsr', p, 'ldmxcsr')
    v = sym.nsimp(v)
    st.mxcsr = v
    rc = sym.extract(v, 14, 13, 32)
    st.rm = fp.rm_from_rc(sym.nsimp(rc))
    st.extra['mxcsr_writes'] = st.extra.get('mxcsr_writes', 0) + 1
    return None


# ------------------------------------------------------------------------------------------------ x86: memory
@model(r'llvm\.x86\.sse2\.maskmov\.dqu')
def _maskmovdqu(ex, st, ins, args, m):
    data, msk = vals(args[0]), vals(args[1])
    ptr = ex.resolve(st, vals(args[2])[0][0])
    # the SDM gives no fault-suppression guarantee for masked-out bytes: all 16 bytes are in the fault footprint
    ex.log_access(st, 'F', ptr, 16, True, True, 'maskmovdqu')
    for i in range(16):
        g = sym.truth(sym.extract(msk[i][0], 7, 7, 8))
        if g is False:
            continue
        pi = Ptr(ptr.obj, sym.add(ptr.off, i, 64))
        ex.log_access(st, 'W', pi, 1, g, False, 'maskmovdqu')
        st.oblige('ub:poison-mask', msk[i][1], 'maskmovdqu')
        ex.write_bytes(st, pi, [data[i]], g, 'maskmovdqu')
    return None


@model(r'llvm\.x86\.(avx|avx2)\.maskload\.(ps|pd|d|q)(\.256)?')
def _maskload(ex, st, ins, args, m):
    ty = ins.ty
    n, w = ty.n, ty.lbits()
    ptr = ex.resolve(st, vals(args[0])[0][0])
    msk = vals(args[1])
    eb = w // 8
    out = []
    for i in range(n):
        g = sym.truth(sym.extract(msk[i][0], w - 1, w - 1, w))
        if g is False:
            out.append((0, False))
            continue
        pi = Ptr(ptr.obj, sym.add(ptr.off, i * eb, 64))
        ex.log_access(st, 'R', pi, eb, g, False, 'maskload')
        v = ex.value_of(llir.Ty('int', w), ex.read_bytes(st, pi, eb, 'maskload'))[0]
        out.append((sym.ite(g, v[0], 0, w), b_or(msk[i][1], sym.b_ite(g, v[1], False))))
    return out


@model(r'llvm\.x86\.(avx|avx2)\.maskstore\.(ps|pd|d|q)(\.256)?')
def _maskstore(ex, st, ins, args, m):
    ptr = ex.resolve(st, vals(args[0])[0][0])
    msk = vals(args[1])
    data = vals(args[2])
    w = W(args[2])
    eb = w // 8
    for i in range(len(data)):
        g = sym.truth(sym.extract(msk[i][0], w - 1, w - 1, w))
        if g is False:
            continue
        pi = Ptr(ptr.obj, sym.add(ptr.off, i * eb, 64))
        ex.log_access(st, 'W', pi, eb, g, False, 'maskstore')
        st.oblige('ub:poison-mask', msk[i][1], 'maskstore')
        ex.write_bytes(st, pi, ex.cells_of(llir.Ty('int', w), [data[i]]), g, 'maskstore')
    return None


def _gather_common(ex, st, src, base, idx, iw, masks, scale, w, what):
    eb = w // 8
    out = []
    for i in range(len(masks)):
        g, pg = masks[i]
        if g is False:
            out.append(src[i])
            continue
        ix, pix = idx[i]
        off = sym.mul(sym.sext(ix, iw, 64), scale, 64)
        pi = Ptr(base.obj, sym.add(base.off, off, 64))
        ex.log_access(st, 'R', pi, eb, g, False, what)
        st.oblige('ub:poison-index', b_and(g, pix), what)
        v = ex.value_of(llir.Ty('int', w), ex.read_bytes(st, pi, eb, what))[0]
        out.append((sym.ite(g, v[0], src[i][0], w), b_or(pg, sym.b_ite(g, v[1], src[i][1]))))
    return out


@model(r'llvm\.x86\.avx2\.gather\.([dq])\.(d|q|ps|pd)(\.256)?')
def _gather_avx2(ex, st, ins, args, m):
    # (src, base i8*, index, mask vector (sign bit), i8 scale)
    n_out = ins.ty.n
    w = ins.ty.lbits()
    src = vals(args[0])
    base = ex.resolve(st, vals(args[1])[0][0])
    idx = vals(args[2])
    iw = W(args[2])
    msk = vals(args[3])
    scale = const_int(args[4])
    n = min(n_out, len(idx))
    masks = [(sym.truth(sym.extract(msk[i][0], w - 1, w - 1, w)), msk[i][1]) for i in range(n)]
    out = _gather_common(ex, st, src, base, idx, iw, masks, scale, w, 'vgather')
    return out + [(0, False)] * (n_out - n)


@model(r'llvm\.x86\.avx512\.mask\.gather[\w.]*')
def _gather_512(ex, st, ins, args, m):
    # (src, base i8*, index, <N x i1> mask, i32 scale)
    n_out = ins.ty.n
    w = ins.ty.lbits()
    src = vals(args[0])
    base = ex.resolve(st, vals(args[1])[0][0])
    idx = vals(args[2])
    iw = W(args[2])
    n = min(n_out, len(idx))
    mb, mp = mask_bits(args[3], n)
    scale = const_int(args[4])
    masks = [(mb[i], mp) for i in range(n)]
    out = _gather_common(ex, st, src, base, idx, iw, masks, scale, w, 'vgather')
    return out + [(0, False)] * (n_out - n)


@model(r'llvm\.x86\.avx512\.mask\.scatter[\w.]*')
def _scatter_512(ex, st, ins, args, m):
    # (base i8*, <N x i1> mask, index, data, i32 scale)
    base = ex.resolve(st, vals(args[0])[0][0])
    idx = vals(args[2])
    iw = W(args[2])
    data = vals(args[3])
    w = W(args[3])
    n = min(len(idx), len(data))
    mb, mp = mask_bits(args[1], n)
    scale = const_int(args[4])
    eb = w // 8
    st.oblige('ub:poison-mask', mp, 'vscatter')
    for i in range(n):      # lowest index first; later (higher) lanes overwrite, as the SDM specifies
        g = mb[i]
        if g is False:
            continue
        ix, pix = idx[i]
        off = sym.mul(sym.sext(ix, iw, 64), scale, 64)
        pi = Ptr(base.obj, sym.add(base.off, off, 64))
        ex.log_access(st, 'W', pi, eb, g, False, 'vscatter')
        st.oblige('ub:poison-index', b_and(g, pix), 'vscatter')
        ex.write_bytes(st, pi, ex.cells_of(llir.Ty('int', w), [data[i]]), g, 'vscatter')
    return None


# ------------------------------------------------------------------------------------------------ inline asm
@asm_model(r'^div[ql]? ')
def _asm_div(ex, st, ins, args, cons):
    """div r/m: (RDX:RAX) / divisor -> RAX quotient, RDX remainder; #DE when divisor == 0 or the quotient overflows"""
    parts = [c for c in cons.split(',') if not c.startswith('~')]
    outs = [c.lstrip('=&') for c in parts if c.startswith('=')]
    inps = [c for c in parts if not c.startswith('=')]
    if len(inps) != len(args):
        raise NotEncodable('div asm operand shape %r' % cons)

    def reg(c):
        c = c.strip('{}')
        if c in ('ax', 'a', 'rax', 'eax'):
            return 'a'
        if c in ('dx', 'd', 'rdx', 'edx'):
            return 'd'
        return None
    lo = hi = div = None
    for c, a in zip(inps, args):
        v = vals(a)[0]
        r = reg(outs[int(c)]) if c.isdigit() else reg(c)
        if r == 'a':
            lo = v
        elif r == 'd':
            hi = v
        else:
            div = v
    if lo is None or hi is None or div is None:
        raise NotEncodable('div asm constraints %r' % cons)
    w = W(args[0])
    (lov, plo), (hiv, phi), (dv, pd) = lo, hi, div
    st.oblige('trap:divide-error', b_or(sym.eq(dv, 0, w), sym.uge(hiv, dv, w)),
              'div instruction raises #DE: divisor == 0 or quotient does not fit (high half >= divisor)')
    st.oblige('ub:poison-asm-operand', b_or(plo, phi, pd), 'div')
    if isinstance(lov, int) and isinstance(hiv, int) and isinstance(dv, int):
        n = (hiv << w) | lov
        q = (n // dv) & M(w) if dv else 0
        r = (n % dv) if dv else 0
    else:
        n, _ = sym.concat([(lov, w), (hiv, w)])
        d2 = sym.zext(dv, w, 2 * w)
        q = sym.trunc(sym.udiv(n, d2, 2 * w), 2 * w, w)
        r = sym.trunc(sym.urem(n, d2, 2 * w), 2 * w, w)
    res = []
    for o in outs:
        res.append([(q, False)] if reg(o) == 'a' else [(r, False)])
    if len(res) == 1:
        return res[0]
    return Agg(res)


@asm_model(r'^add \$1, \$0 rcr \$0$')
def _asm_add_rcr(ex, st, ins, args, cons):
    """add b, a ; rcr a (by one): the 65-bit sum of a and b shifted right by one"""
    if len(args) != 2:
        raise NotEncodable('add/rcr asm operand shape %r' % cons)
    w = W(args[0])
    (x, px), (y, py) = vals(args[0])[0], vals(args[1])[0]
    s = sym.add(sym.zext(x, w, w + 1), sym.zext(y, w, w + 1), w + 1)
    r = sym.trunc(sym.lshr(s, 1, w + 1), w + 1, w)
    return [(r, b_or(px, py))]
