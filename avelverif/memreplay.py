"""Native replay for memory operations: the wrapper runs against an mmap'ed arena in which only the pages holding
the addressed elements are accessible; a signal, a wrong result or a wrong byte in the dumped window confirms."""
import hashlib
import json
import os
import re
import subprocess
import sys

from . import build, harness, replay, memops, configs, llir, sym
from .avtypes import VT
from .sym import M

PAGE = 4096
NPAGES = 64
MID = (NPAGES // 2) * PAGE


def pattern(i, boolish=False):
    v = (i * 131 + 89) & 0xFF
    return v & 1 if boolish else v


def plan(meta, model, placement):
    """-> dict(poff, keep ranges [(lo,hi) relative to arena], n, lanes, idx) ; None when the placement does not apply"""
    mo = memops.BY_NAME[meta['op']]
    T = harness.type_of(meta)
    eb = T.bits // 8
    N = T.n
    n = None
    lanes = idx = None
    for i, k in enumerate(mo.params):
        if k == 'U':
            n = int(model.get('s%d' % i, 0))
        elif k == 'v':
            lanes = [int(model.get('a%d_%d' % (i, j), 0)) for j in range(N)]
        elif k == 'x':
            idx = [sym.sgn(int(model.get('a%d_%d' % (i, j), 0)), T.bits) for j in range(N)]
    cnt = meta['K'] if meta.get('K') is not None else (min(n, N) if n is not None else N)
    A = eb
    if mo.aligned:
        A = max(eb, T.total // 8 if T.n > 1 else eb)
    d = {'n': n, 'lanes': lanes, 'idx': idx, 'cnt': cnt, 'eb': eb, 'N': N}
    if mo.kind in ('load', 'store', 'to_array', 'from_array', 'mask_from_array'):
        L = cnt * eb if mo.kind in ('load', 'store') else (N * eb if mo.kind != 'mask_from_array' else N)
        Lup = (L + A - 1) // A * A
        if placement == 'end':
            if L == 0:
                d['poff'] = MID          # MID page itself inaccessible
                d['keep'] = []
            else:
                d['poff'] = MID + PAGE - Lup
                d['keep'] = [(MID, MID + PAGE)]
        elif placement == 'start':
            if L == 0:
                return None
            d['poff'] = MID
            d['keep'] = [(MID, MID + PAGE)]
        elif placement == 'odd':
            # an address that is aligned for the element type only (shows aligned instructions used by the unaligned API)
            if mo.aligned or L == 0:
                return None
            d['poff'] = MID + 512 + eb
            d['keep'] = [(MID, MID + PAGE)]
        else:
            return None
    else:
        if placement != 'end':
            return None
        d['poff'] = MID
        keep = []
        for j in range(min(cnt, N)):
            lo = MID + idx[j] * eb
            if lo < PAGE or lo + eb > (NPAGES - 1) * PAGE:
                return None
            keep.append((lo // PAGE * PAGE, (lo + eb - 1) // PAGE * PAGE + PAGE))
        d['keep'] = keep
    return d


def make_program(meta, pl, arg_bytes_v, arg_bytes_x, boolish):
    mo = memops.BY_NAME[meta['op']]
    L = ['#include "verif_prelude.hpp"', '#include <sys/mman.h>', '#include <csignal>', '#include <cstdio>', '#include <cstring>', '#include <cstdlib>',
         meta['line'],
         'static void on_sig(int s) { std::printf("SIGNAL %d\\n", s); std::fflush(stdout); std::_Exit(3); }',
         'int main() {',
         '    const size_t PAGE = %d, NP = %d;' % (PAGE, NPAGES),
         '    unsigned char* arena = (unsigned char*) mmap(nullptr, NP * PAGE, PROT_READ | PROT_WRITE, MAP_PRIVATE | MAP_ANONYMOUS, -1, 0);',
         '    if (arena == MAP_FAILED) return 9;',
         '    for (size_t i = 0; i < NP * PAGE; ++i) arena[i] = (unsigned char)(((i * 131 + 89) & 0xFF)%s);' % (' & 1' if boolish else ''),
         '    static unsigned char keep[%d];' % NPAGES]
    for lo, hi in pl['keep']:
        L.append('    for (size_t pg = %d; pg < %d; ++pg) keep[pg] = 1;' % (lo // PAGE, hi // PAGE))
    L.append('    for (size_t pg = 0; pg < NP; ++pg) if (!keep[pg]) mprotect(arena + pg * PAGE, PAGE, PROT_NONE);')
    L.append('    std::signal(SIGSEGV, on_sig); std::signal(SIGBUS, on_sig); std::signal(SIGFPE, on_sig); std::signal(SIGILL, on_sig);')
    call_args = []
    for i, (k, pt) in enumerate(zip(mo.params, meta['params'])):
        if k in 'pPAaB':
            L.append('    %s a%d = (%s)(arena + %d);' % (pt, i, pt, pl['poff']))
        elif k == 'v':
            L.append('    unsigned char b%d[] = {%s}; %s a%d; std::memcpy(&a%d, b%d, sizeof a%d);' % (i, ', '.join(map(str, arg_bytes_v)), pt, i, i, i, i))
        elif k == 'x':
            L.append('    unsigned char b%d[] = {%s}; %s a%d; std::memcpy(&a%d, b%d, sizeof a%d);' % (i, ', '.join(map(str, arg_bytes_x)), pt, i, i, i, i))
        elif k == 'U':
            L.append('    std::uint32_t a%d = %du;' % (i, pl['n']))
        call_args.append('a%d' % i)
    if meta['rtype'] == 'void':
        L.append('    %s(%s);' % (meta['name'], ', '.join(call_args)))
    else:
        L.append('    auto r = %s(%s);' % (meta['name'], ', '.join(call_args)))
        L.append('    unsigned char out[sizeof r]; std::memcpy(out, &r, sizeof r);')
        L.append('    std::printf("RESULT "); for (unsigned i = 0; i < sizeof r; ++i) std::printf("%02x", out[i]); std::printf("\\n");')
    L.append('    for (size_t pg = 0; pg < NP; ++pg) if (keep[pg]) { std::printf("PAGE %zu ", pg); for (size_t i = 0; i < PAGE; ++i) std::printf("%02x", arena[pg * PAGE + i]); std::printf("\\n"); }')
    L.append('    return 0;')
    L.append('}')
    return '\n'.join(L) + '\n'


def judge(meta, rty, pl, native, kind, boolish):
    mo = memops.BY_NAME[meta['op']]
    T = harness.type_of(meta)
    eb, N, cnt = pl['eb'], pl['N'], pl['cnt']
    if 'error' in native:
        return False, native['error']
    if 'signal' in native:
        return True, 'signal %d raised although every addressed element is accessible' % native['signal']
    if kind.startswith('footprint'):
        return False, 'no fault observed'
    if kind.startswith('ub:'):
        if native.get('ubsan'):
            return True, 'UBSan: ' + native['ubsan'][0][-200:]
        # no sanitizer report: still compare what the call did with what the property demands
    out = native.get('stdout_full', '')
    pages = {}
    for m in re.finditer(r'PAGE (\d+) ([0-9a-f]+)', out):
        h = m.group(2)
        pages[int(m.group(1))] = bytes(int(h[i:i + 2], 16) for i in range(0, len(h), 2))

    def memb(a):
        pg = a // PAGE
        if pg in pages:
            return pages[pg][a % PAGE]
        return None
    poff = pl['poff']
    if mo.kind in ('load', 'gather', 'from_array', 'mask_from_array'):
        if 'bytes' not in native:
            return False, 'no result'
        ret = replay.bytes_ir(native['bytes'], rty)
        if mo.kind == 'mask_from_array':
            bools = [bool(pattern(poff + j, True)) for j in range(N)]
            class _O:
                ret = 'm'; lane_pre = None; cmp = 'bits'
            for ob in harness.result_obligations(_O, T, meta, rty, ret, bools, [], True, 'replay'):
                if ob['kind'] == 'result' and ob['formula'] is True:
                    return True, ob['desc']
            return False, 'native result matches'
        got, _ = harness.unpack_lanes(ret, rty, T.bits, N)
        for j in range(N):
            if mo.kind == 'gather':
                a = poff + pl['idx'][j] * eb
            else:
                a = poff + j * eb
            act = j < cnt or mo.kind == 'from_array'
            exp = sum(pattern(a + k) << (8 * k) for k in range(eb)) if act else 0
            if got[j] != exp:
                return True, 'lane %d: observed %#x, expected %#x' % (j, got[j], exp)
        return False, 'native result matches'
    # stores
    if mo.kind in ('store', 'to_array'):
        total = N * eb
        for k in range(-64, total + 64):
            a = poff + k
            b = memb(a)
            if b is None:
                continue
            j = k // eb
            act = 0 <= k < total and (j < cnt or mo.kind == 'to_array')
            exp = (pl['lanes'][j] >> (8 * (k % eb))) & 0xFF if act else pattern(a)
            if b != exp:
                return True, 'byte at offset %d after the call: observed %#x, expected %#x' % (k, b, exp)
        return False, 'memory matches'
    if mo.kind == 'scatter':
        targets = {}
        for j in range(min(cnt, N)):
            for k in range(eb):
                targets.setdefault(poff + pl['idx'][j] * eb + k, []).append((pl['lanes'][j] >> (8 * k)) & 0xFF)
        for pg, data in pages.items():
            for i, b in enumerate(data):
                a = pg * PAGE + i
                if a in targets:
                    if b not in targets[a]:
                        return True, 'byte at offset %d: observed %#x, expected one of %s' % (a - poff, b, targets[a])
                elif b != pattern(a):
                    return True, 'byte at offset %d modified although no active lane addresses it' % (a - poff)
        return False, 'memory matches'
    return False, 'unhandled'


def replay_cex(prop, meta, cfg, fn_arg_types, rty, model, kind, outroot=None):
    mo = memops.BY_NAME[meta['op']]
    T = harness.type_of(meta)
    boolish = mo.kind == 'mask_from_array'
    h = hashlib.sha1(json.dumps([meta['name'], cfg.name, {k: str(v) for k, v in model.items() if not k.startswith('mem_')}, kind], sort_keys=True).encode()).hexdigest()[:10]
    outdir = os.path.join(outroot or replay.REPLAYS, prop, '%s.%s.%s' % (meta['name'], cfg.name, h))
    os.makedirs(outdir, exist_ok=True)
    confirmed = False
    details = {}
    inputs = None
    runs = []
    for placement in ('end', 'start', 'odd'):
        pl = plan(meta, model, placement)
        if pl is None:
            continue
        inputs = {'n': pl['n'], 'lanes': [hex(x) for x in pl['lanes']] if pl['lanes'] else None, 'idx': pl['idx'], 'count': pl['cnt']}
        vb = xb = None
        for i, k in enumerate(mo.params):
            if k == 'v':
                vb = replay.ir_bytes(harness.pack_lanes(pl['lanes'], T.bits, fn_arg_types[i]), fn_arg_types[i])
            elif k == 'x':
                xb = replay.ir_bytes(harness.pack_lanes([x & M(T.bits) for x in pl['idx']], T.bits, fn_arg_types[i]), fn_arg_types[i])
        src = os.path.join(outdir, 'repro_%s.cpp' % placement)
        open(src, 'w').write(make_program(meta, pl, vb, xb, boolish))
        for cc, opt in (('clang++-14', '-O1'), ('g++', '-O2')):
            exe = os.path.join(outdir, 'repro_%s.%s' % (placement, cc.replace('+', 'x')))
            cmd = [cc] + cfg.flags() + [opt, '-w', '-I' + os.path.join(build.HERE, 'cxx'), '-I' + build.repo_include(), src, '-o', exe]
            if kind.startswith('ub:'):
                cmd[1:1] = ['-fsanitize=undefined', '-fno-omit-frame-pointer']
            r = subprocess.run(cmd, stdout=subprocess.PIPE, stderr=subprocess.PIPE, universal_newlines=True)
            key = '%s%s/%s' % (cc, opt, placement)
            if r.returncode != 0:
                details[key] = 'compile failed: ' + r.stderr[-300:]
                continue
            try:
                rr = subprocess.run([exe], stdout=subprocess.PIPE, stderr=subprocess.PIPE, universal_newlines=True, timeout=60, preexec_fn=replay._unlimit)
                out, err = rr.stdout, rr.stderr
            except subprocess.TimeoutExpired:
                out = err = ''
            nat = {'stdout_full': out}
            if kind.startswith('ub:'):
                nat['ubsan'] = [l for l in err.split('\n') if 'runtime error:' in l]
            m = re.search(r'RESULT ([0-9a-f]*)', out)
            if m:
                hx = m.group(1)
                nat['bytes'] = [int(hx[i:i + 2], 16) for i in range(0, len(hx), 2)]
            m = re.search(r'SIGNAL (\d+)', out)
            if m:
                nat['signal'] = int(m.group(1))
            ok, det = judge(meta, rty, pl, nat, kind, boolish)
            details[key] = det
            confirmed = confirmed or ok
            runs.append({'placement': placement, 'cmd': ' '.join(cmd)})
            try:
                os.unlink(exe)
            except OSError:
                pass
    case = {'property': prop, 'wrapper': meta, 'config': cfg.name, 'kind': kind, 'mem': True,
            'model': {k: (v if isinstance(v, (int, bool)) else str(v)) for k, v in model.items() if not k.startswith('mem_')},
            'inputs': inputs, 'confirmed': confirmed, 'details': details, 'runs': runs}
    json.dump(case, open(os.path.join(outdir, 'case.json'), 'w'), indent=1, default=str)
    sh = os.path.join(outdir, 'run.sh')
    open(sh, 'w').write('#!/bin/sh\n# replays a counterexample against the real headers; exit 1 if the violation reproduces\n'
                        'cd "%s" && exec python3-vt -m avelverif.memreplay "%s"\n' % (replay.ROOT, outdir))
    os.chmod(sh, 0o755)
    return {'confirmed': confirmed, 'detail': details, 'path': sh, 'inputs': [json.dumps(inputs)], 'rm': 'RNE'}


def main(argv):
    d = argv[1]
    case = json.load(open(os.path.join(d, 'case.json')))
    meta = case['wrapper']
    cfg = configs.BY_NAME[case['config']]
    text, ok, dropped, cmd, _ll = build.compile_ir(cfg, [meta], 'replay', keep=False)
    mod = llir.parse_module(text)
    fn = mod.fns[meta['name']]
    import tempfile
    r = replay_cex(case['property'], meta, cfg, [a[1] for a in fn.args], fn.ret, case['model'], case['kind'], outroot=tempfile.mkdtemp(prefix='avelreplay'))
    for k, v in r['detail'].items():
        print('%s: %s' % (k, v))
    print('REPRODUCES' if r['confirmed'] else 'does not reproduce')
    return 1 if r['confirmed'] else 0


if __name__ == '__main__':
    sys.exit(main(sys.argv))
