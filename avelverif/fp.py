"""IEEE-754 semantics for lanes carried as bit patterns (int or z3 BitVec)."""
import z3
from . import sym
from .sym import bv, norm, M

SORT = {16: z3.FPSort(5, 11), 32: z3.Float32(), 64: z3.Float64()}
EB = {16: 5, 32: 8, 64: 11}
SB = {16: 11, 32: 24, 64: 53}

RNE, RTP, RTN, RTZ, RNA = z3.RNE(), z3.RTP(), z3.RTN(), z3.RTZ(), z3.RNA()


def to_fp(x, w):
    return z3.fpBVToFP(bv(x, w), SORT[w])


def qnan_default(w):
    # x86 "real indefinite": sign set, quiet bit set
    return {32: 0xFFC00000, 64: 0xFFF8000000000000, 16: 0xFE00}[w]


def quiet_bit(w):
    return 1 << (SB[w] - 2)


def is_nan_bits(x, w):
    """NaN test on the pattern without going through the FP sort"""
    eb, sb = EB[w], SB[w]
    if isinstance(x, int):
        return ((x >> (sb - 1)) & M(eb)) == M(eb) and (x & M(sb - 1)) != 0
    return z3.And(z3.Extract(w - 2, sb - 1, x) == M(eb), z3.Extract(sb - 2, 0, x) != 0)


def _fin(r):
    if z3.is_bv_value(r):
        return r.as_long()
    return r


def from_fp(f, w, nanbits):
    """FP term -> pattern; nanbits is the pattern to use when f is NaN"""
    r = z3.If(z3.fpIsNaN(f), bv(nanbits, w), z3.fpToIEEEBV(f))
    return r


def x86_nan2(a, b, w):
    """NaN produced by a binary SSE/AVX arithmetic instruction (dest = a op b)"""
    q = quiet_bit(w)
    return sym.ite(is_nan_bits(a, w), sym.or_(a, q, w),
                   sym.ite(is_nan_bits(b, w), sym.or_(b, q, w), qnan_default(w), w), w)


def x86_nan1(a, w):
    q = quiet_bit(w)
    return sym.ite(is_nan_bits(a, w), sym.or_(a, q, w), qnan_default(w), w)


def conc(*xs):
    return all(isinstance(x, int) for x in xs)


def done(term, *ins):
    """simplify to an int when all inputs were concrete"""
    if conc(*ins):
        r = z3.simplify(term)
        if z3.is_bv_value(r):
            return r.as_long()
        return r
    return term


def binop(op, rm, a, b, w):
    fa, fb = to_fp(a, w), to_fp(b, w)
    if op == 'fadd':
        r = z3.fpAdd(rm, fa, fb)
    elif op == 'fsub':
        r = z3.fpSub(rm, fa, fb)
    elif op == 'fmul':
        r = z3.fpMul(rm, fa, fb)
    elif op == 'fdiv':
        r = z3.fpDiv(rm, fa, fb)
        ta, tb = _int_tag(a), _int_tag(b)
        if ta is not None and tb is not None and ta[1] <= SB[w] - 1 and tb[1] <= SB[w] - 1:
            res = done(from_fp(r, w, x86_nan2(a, b, w)), a, b)
            if not isinstance(res, int):
                _DIV_TAG[res.get_id()] = (res, ta[0], tb[0])
            return res
    elif op == 'frem':
        # C fmod: truncated remainder, sign of dividend
        r = fmod_term(fa, fb, w)
    else:
        raise Exception(op)
    return done(from_fp(r, w, x86_nan2(a, b, w)), a, b)


def fmod_term(fa, fb, w):
    # fmod(x,y) = x - trunc(x/y)*y computed exactly: z3's fpRem is IEEE remainder (round-to-nearest quotient);
    # derive fmod from it: r = rem(|x|,|y|); if r < 0: r += |y|; copysign(r, x)
    ax, ay = z3.fpAbs(fa), z3.fpAbs(fb)
    r = z3.fpRem(ax, ay)
    r2 = z3.If(z3.fpLT(r, z3.FPVal(0.0, SORT[w])), z3.fpAdd(RNE, r, ay), r)
    return z3.If(z3.fpIsNegative(fa), z3.fpNeg(z3.fpAbs(r2)), z3.fpAbs(r2))


def sqrt(rm, a, w):
    return done(from_fp(z3.fpSqrt(rm, to_fp(a, w)), w, x86_nan1(a, w)), a)


def fma(rm, a, b, c, w, tag='fma'):
    r = z3.fpFMA(rm, to_fp(a, w), to_fp(b, w), to_fp(c, w))
    q = quiet_bit(w)
    nanv = sym.ite(is_nan_bits(a, w), sym.or_(a, q, w),
                   sym.ite(is_nan_bits(b, w), sym.or_(b, q, w),
                           sym.ite(is_nan_bits(c, w), sym.or_(c, q, w), qnan_default(w), w), w), w)
    return done(from_fp(r, w, nanv), a, b, c)


def round_int(mode, a, w):
    """round to integral in floating-point format; mode is a z3 rounding mode"""
    return done(from_fp(z3.fpRoundToIntegral(mode, to_fp(a, w)), w, x86_nan1(a, w)), a)


FCMP = {
    'oeq': lambda a, b: z3.fpEQ(a, b),
    'ogt': lambda a, b: z3.fpGT(a, b),
    'oge': lambda a, b: z3.fpGEQ(a, b),
    'olt': lambda a, b: z3.fpLT(a, b),
    'ole': lambda a, b: z3.fpLEQ(a, b),
    'one': lambda a, b: z3.And(z3.Not(z3.fpIsNaN(a)), z3.Not(z3.fpIsNaN(b)), z3.Not(z3.fpEQ(a, b))),
    'ord': lambda a, b: z3.And(z3.Not(z3.fpIsNaN(a)), z3.Not(z3.fpIsNaN(b))),
    'uno': lambda a, b: z3.Or(z3.fpIsNaN(a), z3.fpIsNaN(b)),
    'ueq': lambda a, b: z3.Or(z3.fpIsNaN(a), z3.fpIsNaN(b), z3.fpEQ(a, b)),
    'ugt': lambda a, b: z3.Not(z3.fpLEQ(a, b)),
    'uge': lambda a, b: z3.Not(z3.fpLT(a, b)),
    'ult': lambda a, b: z3.Not(z3.fpGEQ(a, b)),
    'ule': lambda a, b: z3.Not(z3.fpGT(a, b)),
    'une': lambda a, b: z3.Not(z3.fpEQ(a, b)),
    'true': lambda a, b: z3.BoolVal(True),
    'false': lambda a, b: z3.BoolVal(False),
}


def fcmp(pred, a, b, w):
    t = FCMP[pred](to_fp(a, w), to_fp(b, w))
    if conc(a, b):
        return sym.sb(t)
    return t


# ---- exact-quotient lemma -------------------------------------------------------------------------------------------
# AVEL divides small integers as  cvtt(fdiv(cvt(a), cvt(b))).  Bit-blasting a 24/53-bit IEEE divider is out of reach of every
# back end here, so the pattern is decided through this (pen-and-paper) lemma, stated in DESIGN.md:
#   for non-negative integers a, b < 2^(p-1) (p = 24 / 53 significand bits) and every rounding mode,
#   trunc(fl(a / b)) == floor(a / b) when b != 0, and fl(a / b) is inf or NaN when b == 0.
# (cvt is exact below 2^p; k = floor(a/b) is representable so fl >= k; the next representable number above a/b is
#  < a/b + (a/b) 2^(1-p) <= k + 1 - 1/b + a 2^(1-p) / b < k + 1.)
# Terms are tagged syntactically; a tagged quotient that reaches anything but a truncating conversion keeps its IEEE meaning.
_INT_TAG = {}
_DIV_TAG = {}
LEMMA_USES = [0]


def reset_tags():
    _INT_TAG.clear()
    _DIV_TAG.clear()


def _core_unsigned(x, wi):
    """-> (core term, significant bits): x == zext(core), found syntactically"""
    from .symex import klz
    z = klz(x, wi)
    cw = wi - z
    if cw <= 0:
        return z3.BitVecVal(0, 1), 1
    while True:
        k = x.decl().kind()
        if k == z3.Z3_OP_ZERO_EXT and x.arg(0).size() >= cw:
            x = x.arg(0)
            continue
        if k == z3.Z3_OP_CONCAT:
            ch = x.children()
            low = ch[-1]
            if low.size() >= cw and len(ch) >= 2:
                x = low
                continue
        break
    if x.size() > cw:
        x = z3.Extract(cw - 1, 0, x)
    return x, cw


def _int_tag(a):
    if isinstance(a, int):
        return None
    t = _INT_TAG.get(a.get_id())
    return (t[1], t[2]) if t is not None else None


def si_to_fp(rm, x, wi, wf, signed=True):
    t = z3.fpSignedToFP(rm, bv(x, wi), SORT[wf]) if signed else z3.fpUnsignedToFP(rm, bv(x, wi), SORT[wf])
    r = done(z3.fpToIEEEBV(t), x)
    if not isinstance(r, int) and not isinstance(x, int):
        from .symex import klz
        z = klz(x, wi)
        if z >= (1 if signed else 0) and wi - z >= 1:
            core, cw = _core_unsigned(x, wi)
            _INT_TAG[r.get_id()] = (r, core, cw)
    return r


def _tagged_quotient(a, wi, signed):
    """(value, in-range) of a truncating conversion of a tagged quotient, or None"""
    if isinstance(a, int):
        return None
    t = _DIV_TAG.get(a.get_id())
    if t is None:
        return None
    _, ca, cb = t
    W = max(ca.size(), cb.size())
    A = z3.ZeroExt(W - ca.size(), ca) if ca.size() < W else ca
    B = z3.ZeroExt(W - cb.size(), cb) if cb.size() < W else cb
    q = z3.UDiv(A, B)
    lim = wi - 1 if signed else wi
    ok = B != 0
    if W > lim:
        ok = z3.And(ok, z3.Extract(W - 1, lim, q) == 0)
    v = z3.ZeroExt(wi - W, q) if W < wi else (z3.Extract(wi - 1, 0, q) if W > wi else q)
    return v, ok


def fp_to_int(a, wf, wi, signed, mode=None):
    """-> (value, in_range bool).  mode None = truncation (fptosi/fptoui, cvtt*)."""
    mode = mode if mode is not None else RTZ
    if mode.eq(RTZ):
        t = _tagged_quotient(a, wi, signed)
        if t is not None:
            LEMMA_USES[0] += 1
            return t
    f = to_fp(a, wf)
    ri = z3.fpRoundToIntegral(mode, f)
    if signed:
        lo = z3.fpSignedToFP(RNE, z3.BitVecVal(1 << (wi - 1), wi), SORT[wf])   # -2^(wi-1), exact
        hi = z3.fpNeg(lo)                                                     # 2^(wi-1)
        ok = z3.And(z3.Not(z3.fpIsNaN(f)), z3.Not(z3.fpIsInf(f)), z3.fpGEQ(ri, lo), z3.fpLT(ri, hi))
        v = z3.fpToSBV(mode, f, z3.BitVecSort(wi))
    else:
        # 2^wi as fp: build from 2^(wi-1)*2
        half = z3.fpUnsignedToFP(RNE, z3.BitVecVal(1 << (wi - 1), wi), SORT[wf])
        hi = z3.fpAdd(RNE, half, half)
        ok = z3.And(z3.Not(z3.fpIsNaN(f)), z3.Not(z3.fpIsInf(f)),
                    z3.fpGEQ(ri, z3.FPVal(0.0, SORT[wf])), z3.fpLT(ri, hi))
        # negative values that round to -0 are in range (result 0)
        v = z3.fpToUBV(mode, f, z3.BitVecSort(wi))
    if conc(a):
        return norm(z3.simplify(v)) if sym.sb(ok) is True else 0, sym.sb(ok)
    return v, ok


def fpext(a, w1, w2):
    f = z3.fpFPToFP(RNE, to_fp(a, w1), SORT[w2])
    q = quiet_bit(w2)
    # NaN: sign and payload carried over (payload shifted), quieted
    if isinstance(a, int):
        sign = a >> (w1 - 1)
        pay = a & M(SB[w1] - 1)
        nanv = (sign << (w2 - 1)) | (M(EB[w2]) << (SB[w2] - 1)) | (pay << (SB[w2] - SB[w1])) | q
    else:
        sign = z3.Extract(w1 - 1, w1 - 1, a)
        pay = z3.Extract(SB[w1] - 2, 0, a)
        nanv = z3.Concat(sign, z3.BitVecVal(M(EB[w2]), EB[w2]), pay, z3.BitVecVal(0, SB[w2] - SB[w1])) | q
    return done(from_fp(f, w2, nanv), a)


def fptrunc(rm, a, w1, w2):
    f = z3.fpFPToFP(rm, to_fp(a, w1), SORT[w2])
    q = quiet_bit(w2)
    if isinstance(a, int):
        sign = a >> (w1 - 1)
        pay = (a & M(SB[w1] - 1)) >> (SB[w1] - SB[w2])
        nanv = (sign << (w2 - 1)) | (M(EB[w2]) << (SB[w2] - 1)) | pay | q
    else:
        sign = z3.Extract(w1 - 1, w1 - 1, a)
        pay = z3.Extract(SB[w1] - 2, SB[w1] - SB[w2], a)
        nanv = z3.Concat(sign, z3.BitVecVal(M(EB[w2]), EB[w2]), pay) | q
    return done(from_fp(f, w2, nanv), a)


def rm_from_rc(rc):
    """2-bit MXCSR.RC field -> z3 rounding mode term"""
    if isinstance(rc, int):
        return [RNE, RTN, RTP, RTZ][rc & 3]
    return z3.If(rc == 0, RNE, z3.If(rc == 1, RTN, z3.If(rc == 2, RTP, RTZ)))


def rc_from_rm(rm):
    if z3.is_app(rm) and rm.num_args() == 0 and rm.decl().kind() != z3.Z3_OP_UNINTERPRETED:
        k = rm.decl().kind()
        return {z3.Z3_OP_FPA_RM_NEAREST_TIES_TO_EVEN: 0, z3.Z3_OP_FPA_RM_TOWARD_NEGATIVE: 1,
                z3.Z3_OP_FPA_RM_TOWARD_POSITIVE: 2, z3.Z3_OP_FPA_RM_TOWARD_ZERO: 3}[k]
    return z3.If(rm == RNE, z3.BitVecVal(0, 2), z3.If(rm == RTN, z3.BitVecVal(1, 2),
                 z3.If(rm == RTP, z3.BitVecVal(2, 2), z3.BitVecVal(3, 2))))
