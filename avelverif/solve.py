"""Solver portfolio: z3 (in process) -> cvc5 --solve-bv-as-int=sum (CLI) -> kissat (CLI, via z3 bit-blasting).
A query is (assumptions, formula); 'unsat' discharges the obligation, 'sat' yields a model (dict name -> int/bool),
'unknown' is never success."""
import os
import re
import subprocess
import tempfile
import time

import z3
from . import sym


class Stats:
    def __init__(self):
        self.time = {'z3': 0.0, 'cvc5': 0.0, 'kissat': 0.0}
        self.calls = {'z3': 0, 'cvc5': 0, 'kissat': 0, 'trivial': 0}
        self.decided_by = {'trivial': 0, 'z3': 0, 'cvc5': 0, 'kissat': 0}


def is_trivially_false(f):
    if f is False:
        return True
    if f is True:
        return False
    s = z3.simplify(f)
    return z3.is_false(s)


def model_to_dict(m):
    out = {}
    for d in m.decls():
        v = m[d]
        try:
            if z3.is_bv_value(v):
                out[d.name()] = v.as_long()
            elif z3.is_true(v):
                out[d.name()] = True
            elif z3.is_false(v):
                out[d.name()] = False
            else:
                out[d.name()] = str(v)
        except Exception:
            out[d.name()] = str(v)
    return out


def z3_check(assumptions, formula, timeout_ms):
    s = z3.Solver()
    s.set('timeout', int(timeout_ms))
    for a in assumptions:
        s.add(sym.bz(a))
    s.add(sym.bz(formula))
    t = time.time()
    r = s.check()
    dt = time.time() - t
    if r == z3.sat:
        return 'sat', model_to_dict(s.model()), dt
    if r == z3.unsat:
        return 'unsat', None, dt
    return 'unknown', None, dt


BVHARD = re.compile(r'\b(bvmul|bvudiv|bvurem|bvsdiv|bvsrem)\b')


def to_smt2(assumptions, formula):
    s = z3.Solver()
    for a in assumptions:
        s.add(sym.bz(a))
    s.add(sym.bz(formula))
    txt = s.to_smt2()
    txt = txt.replace('bvudiv_i', 'bvudiv').replace('bvurem_i', 'bvurem').replace('bvsdiv_i', 'bvsdiv') \
             .replace('bvsrem_i', 'bvsrem').replace('bvsmod_i', 'bvsmod')
    return txt


def cvc5_check(assumptions, formula, timeout_s, intblast=True):
    txt = to_smt2(assumptions, formula)
    if 'FloatingPoint' in txt or 'RoundingMode' in txt or 'Array' in txt:
        if intblast:
            return 'unknown', None, 0.0
    txt = txt.replace('(check-sat)', '(check-sat)\n(get-model)')
    txt = '(set-option :produce-models true)\n(set-logic ALL)\n' + txt
    with tempfile.NamedTemporaryFile('w', suffix='.smt2', delete=False, dir=os.environ.get('AVEL_VERIF_TMP', None)) as f:
        f.write(txt)
        path = f.name
    cmd = ['cvc5', '--tlimit=%d' % int(timeout_s * 1000)]
    if intblast:
        cmd.append('--solve-bv-as-int=sum')
    cmd.append(path)
    t = time.time()
    try:
        r = subprocess.run(cmd, stdout=subprocess.PIPE, stderr=subprocess.PIPE, universal_newlines=True, timeout=timeout_s + 10)
        out = r.stdout + r.stderr
    except subprocess.TimeoutExpired:
        out = 'timeout'
    finally:
        os.unlink(path)
    dt = time.time() - t
    first = ''
    for line in out.split('\n'):
        if line.strip().startswith('(error'):
            break          # an error before the verdict makes the answer inconclusive
        if line.strip() in ('sat', 'unsat', 'unknown'):
            first = line.strip()
            break
    if first == 'unsat':
        return 'unsat', None, dt
    if first == 'sat':
        model = {}
        for m in re.finditer(r'\(define-fun (\S+) \(\) \(_ BitVec (\d+)\) #([xb])([0-9a-fA-F]+)\)', out):
            model[m.group(1).strip('|')] = int(m.group(4), 16 if m.group(3) == 'x' else 2)
        for m in re.finditer(r'\(define-fun (\S+) \(\) Bool (true|false)\)', out):
            model[m.group(1).strip('|')] = m.group(2) == 'true'
        return 'sat', model, dt
    return 'unknown', None, dt


def kissat_check(assumptions, formula, timeout_s):
    """bit-blast with z3 tactics, solve CNF with kissat; only 'unsat' is trusted without a model (sat -> unknown, the
    caller re-asks z3 with the hint that a model exists)"""
    g = z3.Goal()
    for a in assumptions:
        g.add(sym.bz(a))
    g.add(sym.bz(formula))
    t0 = time.time()
    try:
        tac = z3.Then(z3.Tactic('simplify'), z3.Tactic('fpa2bv'), z3.Tactic('simplify'), z3.Tactic('bit-blast'), z3.Tactic('tseitin-cnf'))
        res = z3.TryFor(tac, int(timeout_s * 1000))(g)
    except z3.Z3Exception as e:
        if os.environ.get('AVEL_VERIF_DEBUG'):
            print('kissat_check: tactic failed:', e)
        return 'unknown', None, time.time() - t0
    if len(res) != 1:
        return 'unknown', None, time.time() - t0
    sub = res[0]
    if sub.inconsistent():
        return 'unsat', None, time.time() - t0
    if len(sub) == 0:
        return 'sat-nomodel', None, time.time() - t0
    dimacs = sub.dimacs()
    with tempfile.NamedTemporaryFile('w', suffix='.cnf', delete=False, dir=os.environ.get('AVEL_VERIF_TMP', None)) as f:
        f.write(dimacs)
        path = f.name
    try:
        r = subprocess.run(['kissat', '-q', '--relaxed', '--time=%d' % int(timeout_s), path], stdout=subprocess.PIPE, stderr=subprocess.PIPE,
                           universal_newlines=True, timeout=timeout_s + 20)
        code = r.returncode
    except subprocess.TimeoutExpired:
        code = 0
    finally:
        os.unlink(path)
    dt = time.time() - t0
    if code == 20:
        return 'unsat', None, dt
    if code == 10:
        return 'sat-nomodel', None, dt
    return 'unknown', None, dt


class Portfolio:
    def __init__(self, z3_ms=10000, fallback_s=20, use_cvc5=True, use_kissat=True, plain_cvc5=False):
        self.plain_cvc5 = plain_cvc5
        self.z3_ms = z3_ms
        self.fallback_s = fallback_s
        self.use_cvc5 = use_cvc5
        self.use_kissat = use_kissat
        self.stats = Stats()

    def check(self, assumptions, formula, z3_ms=None):
        st = self.stats
        if is_trivially_false(formula):
            st.calls['trivial'] += 1
            st.decided_by['trivial'] += 1
            return 'unsat', None, 'trivial'
        r, m, dt = z3_check(assumptions, formula, z3_ms or self.z3_ms)
        st.calls['z3'] += 1
        st.time['z3'] += dt
        if r != 'unknown':
            st.decided_by['z3'] += 1
            return r, m, 'z3'
        txt = None
        if self.use_cvc5:
            try:
                txt = to_smt2(assumptions, formula)
            except Exception:
                txt = None
            if txt is not None and BVHARD.search(txt):
                try:
                    r, m, dt = cvc5_check(assumptions, formula, self.fallback_s, True)
                except Exception:
                    r, m, dt = 'unknown', None, 0.0
                st.calls['cvc5'] += 1
                st.time['cvc5'] += dt
                if r != 'unknown':
                    st.decided_by['cvc5'] += 1
                    return r, m, 'cvc5'
        if self.use_kissat and (txt is None or 'Array' not in txt):
            r, m, dt = kissat_check(assumptions, formula, self.fallback_s)
            st.calls['kissat'] += 1
            st.time['kissat'] += dt
            if r == 'unsat':
                st.decided_by['kissat'] += 1
                return r, m, 'kissat'
            if r == 'sat-nomodel':
                # a model exists: give z3 a longer try to produce it
                r2, m2, dt2 = z3_check(assumptions, formula, 4 * (z3_ms or self.z3_ms))
                st.calls['z3'] += 1
                st.time['z3'] += dt2
                if r2 != 'unknown':
                    st.decided_by['z3'] += 1
                    return r2, m2, 'z3'
        if self.use_cvc5 and self.plain_cvc5 and txt is not None and 'FloatingPoint' not in txt:
            try:
                r, m, dt = cvc5_check(assumptions, formula, self.fallback_s, False)
            except Exception:
                r, m, dt = 'unknown', None, 0.0
            st.calls['cvc5'] += 1
            st.time['cvc5'] += dt
            if r != 'unknown':
                st.decided_by['cvc5'] += 1
                return r, m, 'cvc5'
        return 'unknown', None, 'none'
