"""Property-specific harnesses that are not plain register-to-register wrappers (denominators, allocator, prefetch, macros)."""
import hashlib
import os
import re
import time

from . import build, configs, llir, known, sysconsts, ops


def denominators(prop, tier, seed, a):
    from . import check, denom, runner
    t0 = time.time()
    budget = dict(check.BUDGET[tier])
    budget['group_ms'] = 1000
    ladder = configs.check_ladder(build.REPO)
    cfgs = configs.for_tier(tier)
    if a.configs:
        cfgs = [configs.BY_NAME[c] for c in a.configs.split(',')]
    kf = known.load()
    tasks, compile_info, dropped_all = [], [], []
    dedup = {}
    n_dedup = 0
    for cfg in cfgs:
        ws = denom.wrappers_for(cfg, prop, tier)
        if a.ops:
            ws = [w for w in ws if re.search(a.ops, w['op'])]
        if a.types:
            ws = [w for w in ws if re.search(a.types, w['type'])]
        if not ws:
            continue
        tc = time.time()
        text, ok, dropped, cmd, llpath = build.compile_ir(cfg, ws, prop)
        mod = llir.parse_module(text)
        compile_info.append({'config': cfg.name, 'flags': cfg.flags(), 'wrappers': len(ok), 'dropped': len(dropped), 'compile_s': round(time.time() - tc, 2)})
        for w, err in dropped:
            dropped_all.append({'config': cfg.name, 'wrapper': w['name'], 'error': err[:200]})
        for w in ok:
            h = check.fn_hash(mod, w['name'])
            key = (h, w['op'], w['type'])
            if key in dedup:
                n_dedup += 1
                dedup[key]['also'].append(cfg.name)
                continue
            groups = denom.groups_for(w, tier, seed)
            t = {'ll': llpath, 'meta': w, 'cfg': cfg.name, 'prop': prop, 'budget': budget, 'known': kf, 'ir_hash': h, 'also': [],
                 'handler': 'avelverif.denom.solve_task', 'groups': groups, 'tier': tier, 'soft_s': (15 if prop == 'C15' else 25) if tier == 'quick' else (60 if prop == 'C15' else 300)}
            if w['op'] == 'div64uhi':
                t['handler'] = 'avelverif.denom.solve_div64'
                t['soft_s'] = 60 if tier == 'quick' else 240
                ls = [34, 36, 40, 44, 48, 52, 56, 60, 62, 63] if tier == 'quick' else list(range(2, 64))
                t['l'] = ls[0]
                for l_ in ls[1:]:
                    tasks.append(dict(t, l=l_, also=[]))
            dedup[key] = t
            tasks.append(t)
    print('[%s %s] %d configurations, %d wrappers x divisor lattices to decide (%d identical-IR duplicates folded), %d dropped at compile time'
          % (prop, tier, len(compile_info), len(tasks), n_dedup, len(dropped_all)), flush=True)

    def progress(done, total, r):
        if a.verbose or r.get('status') not in ('ok', 'known'):
            print('  [%d/%d] %-40s %-8s %-13s %.1fs %s' % (done, total, r.get('name'), r.get('cfg'), r.get('status'), r.get('time', 0),
                                                           (r.get('detail') or '')[:120].replace('\n', ' ')), flush=True)
    results = runner.run_pool(tasks, nproc=a.jobs, hard_s=100 if tier == 'quick' else 700, progress=progress)
    extra = {'bounds': 'numerator: every value of the type; divisor: every value for 8-bit types (symbolic), enumerated lattice otherwise '
                       '(powers of two and neighbours, +-1, extremes, 0xAA../0x55.. patterns%s); divisors outside the lattice are outside the claim for 16/32/64-bit types'
                       % (', every 16-bit divisor for the scalar types, seeded random values' if tier == 'thorough' else ''),
             'divisor_groups': sum(len(t['groups']) for t in tasks),
             'divisor_groups_done': sum((r or {}).get('groups_done', 0) for r in results)}
    return check.finish(prop, tier, seed, a, t0, tasks, results, compile_info, dropped_all, n_dedup, ladder, kf, extra)


def scalar_equiv(prop, tier, seed, a):
    """C16: every scalar overload against the same oracle the vector lanes are checked against (C04/C06/C07/C10-C13), under
    every scalar instruction-set selection; thorough also re-runs the vector side under this property."""
    from . import check
    t0 = time.time()
    names = ['none', 'x86', 'popcnt', 'lzcnt', 'bmi', 'bmi2', 'sse2', 'sse42', 'avx2', 'avx512']
    cfgs = [configs.BY_NAME[n] for n in names]
    if tier == 'thorough':
        cfgs = configs.ALL
    extra = {'note': 'scalar overloads and vector lanes are decided against one and the same oracle per operation; equality of the two '
                     'follows by transitivity wherever both sides are discharged (vector side: evidence of C04, C06, C07, C11, C12, C13)'}
    return check.run_wrapper_property(prop, tier, seed, a, t0, extra_evidence=extra, cfgs=cfgs,
                                      gen_kwargs={'scalars_only': tier != 'thorough'})


HANDLERS = {'C14': denominators, 'C15': denominators, 'C16': scalar_equiv}


# ------------------------------------------------------------------------------------------------ C20 prefetch
PREFETCH_BOUND = 4 * 4096 + 64


def prefetch_wrappers():
    out = []
    for rw in ('read', 'write'):
        for lvl in ('L1_CACHE', 'L2_CACHE', 'L3_CACHE'):
            nm = 'w_prefetch_%s_%s_untyped' % (rw, lvl)
            out.append({'name': nm, 'op': 'prefetch_' + rw, 'type': 'void', 'scalar': True, 'K': None, 'prefetch': True, 'elem': 1,
                        'line': 'VW void %s(const void* p, std::size_t n) { avel::prefetch_%s<avel::%s>(p, n); }' % (nm, rw, lvl),
                        'params': ['const void*', 'std::size_t'], 'rtype': 'void'})
            for tn, sz in (('std::uint32_t', 4), ('avel_verif_blob64', 64), ('avel_verif_blob65', 65), ('avel_verif_blob200', 200)):
                nm = 'w_prefetch_%s_%s_%s' % (rw, lvl, 'u32' if sz == 4 else 'blob%d' % sz)
                out.append({'name': nm, 'op': 'prefetch_' + rw, 'type': tn, 'scalar': True, 'K': None, 'prefetch': True, 'elem': sz,
                            'line': 'VW void %s(const %s* p, std::size_t n) { avel::prefetch_%s<avel::%s, %s>(p, n); }' % (nm, tn, rw, lvl, tn),
                            'params': ['const %s*' % tn, 'std::size_t'], 'rtype': 'void'})
    return out


PREFETCH_REPLAY = r'''
#include "verif_prelude.hpp"
struct avel_verif_blob64 { unsigned char b[64]; };
struct avel_verif_blob65 { unsigned char b[65]; };
struct avel_verif_blob200 { unsigned char b[200]; };
#include <sys/mman.h>
#include <csignal>
#include <cstdio>
#include <cstring>
#include <cstdlib>
%(line)s
static void on_sig(int s) { std::printf("SIGNAL %%d\n", s); std::fflush(stdout); std::_Exit(3); }
int main() {
    const size_t PAGE = 4096;
    unsigned char* arena = (unsigned char*) mmap(nullptr, 16 * PAGE, PROT_READ | PROT_WRITE, MAP_PRIVATE | MAP_ANONYMOUS, -1, 0);
    for (size_t i = 0; i < 16 * PAGE; ++i) arena[i] = (unsigned char)(i * 7 + 1);
    std::signal(SIGSEGV, on_sig); std::signal(SIGBUS, on_sig);
    // 1: memory must be unchanged when the range is accessible
    %(name)s((%(ptype)s)(arena + %(off)dull), (std::size_t) %(n)dull);
    for (size_t i = 0; i < 16 * PAGE; ++i) if (arena[i] != (unsigned char)(i * 7 + 1)) { std::printf("MODIFIED %%zu\n", i); return 4; }
    // 2: no fault when the pointer is inaccessible, null or wild
    mprotect(arena, 16 * PAGE, PROT_NONE);
    %(name)s((%(ptype)s)(arena + %(off)dull), (std::size_t) %(n)dull);
    %(name)s((%(ptype)s) nullptr, (std::size_t) %(n)dull);
    %(name)s((%(ptype)s)(%(wild)dull), (std::size_t) %(n)dull);
    std::printf("OK\n");
    return 0;
}
'''


def prefetch_task(task):
    import hashlib, json, subprocess, traceback, resource
    import z3
    from . import symex, intrin, harness, sym, replay, runner, solve
    t0 = time.time()
    meta = task['meta']
    res = {'name': meta['name'], 'op': meta['op'], 'type': meta['type'], 'cfg': task['cfg'], 'status': 'ok', 'time': 0.0,
           'obligations': 0, 'discharged': 0, 'trivial': 0, 'by_symmetry': 0, 'nontrivial': 0, 'undecided': [], 'known_hits': [],
           'violations': [], 'unconfirmed': []}
    try:
        mod = runner.get_mod(task['ll'])
        fn = mod.fns[meta['name']]
        cfg = configs.BY_NAME[task['cfg']]
        ex = symex.Executor(mod, intrin.Intrinsics(), assumptions=[])
        ex.MAX_VISITS = PREFETCH_BOUND // 16 + 64      # unwinding bound: one iteration per cache line (>= 16 bytes) of at most PREFETCH_BOUND bytes
        rm, _ = harness.make_rm(None)
        st, mx_asm = harness.init_state(ex, rm)
        n = z3.BitVec('n', 64)
        bound = PREFETCH_BOUND // meta['elem']
        asm = mx_asm + [z3.ULE(n, bound)]
        ex.assumptions = asm
        # the pointer is an arbitrary address: an external object about whose accessibility nothing is known, entered at an arbitrary offset
        o = ex.new_obj(st, 'array', None, 1, 'anywhere', writable=True, external=True)
        off = z3.BitVec('p_off', 64)
        finals = ex.run(meta['name'], [[(symex.Ptr(o.id, off), False)], [(n, False)]], st)
        res['paths'] = len(finals)
        res['steps'] = ex.total_steps
        res['intrinsics'] = sorted(ex.intrinsics_used)
        res['callees'] = sorted(ex.called)
        obls = []
        prefetches = 0
        for f in finals:
            pc = sym.b_and(*f.pc)
            prefetches = max(prefetches, f.extra.get('prefetches', 0))
            for cat, bad, info, pcsnap in f.obls:
                obls.append((cat, sym.b_and(sym.b_and(*pcsnap), bad), info))
            for e in f.log:
                obls.append(('footprint:' + e['kind'], sym.b_and(sym.b_and(*e['pc']), e['guard']),
                             '%s of %d byte(s) through the prefetched pointer (%s)' % ({'R': 'read', 'W': 'write', 'F': 'possibly faulting access'}[e['kind']], e['n'], e['what'])))
            if f.mxcsr is not st.extra['mxcsr0']:
                obls.append(('fpenv:mxcsr-changed', sym.b_and(pc, f.mxcsr != st.extra['mxcsr0']), 'MXCSR changed'))
        res['max_prefetches_on_a_path'] = prefetches
        # unwinding assertion: with n <= bound every path left the loop (the executor stops only at ret); a path count equal to the
        # iteration bound + 1 and no step-limit exception is the evidence; additionally the exit condition must be valid at the cap
        pf = solve.Portfolio(z3_ms=5000, fallback_s=10)
        for cat, f, info in obls:
            res['obligations'] += 1
            r, m, by = pf.check(asm, f)
            if r == 'unsat':
                res['discharged'] += 1
                if by == 'trivial':
                    res['trivial'] += 1
                else:
                    res['nontrivial'] += 1
            elif r == 'sat':
                nn = int(m.get('n', 0))
                po = int(m.get('p_off', 0)) % 4096
                h = hashlib.sha1(json.dumps([meta['name'], cfg.name, nn, po, cat]).encode()).hexdigest()[:10]
                outdir = os.path.join(replay.REPLAYS, task['prop'], '%s.%s.%s' % (meta['name'], cfg.name, h))
                os.makedirs(outdir, exist_ok=True)
                src = os.path.join(outdir, 'repro.cpp')
                open(src, 'w').write(PREFETCH_REPLAY % {'line': meta['line'], 'name': meta['name'], 'ptype': meta['params'][0], 'off': 4096 + po,
                                                        'n': min(nn, (8 * 4096) // meta['elem']), 'wild': 0x7f0000dead00})
                confirmed = False
                details = {}
                for cc, opt in (('clang++-14', '-O1'), ('g++', '-O2')):
                    exe = os.path.join(outdir, 'repro.' + cc.replace('+', 'x'))
                    cmd = [cc] + cfg.flags() + [opt, '-w', '-I' + os.path.join(build.HERE, 'cxx'), '-I' + build.repo_include(), src, '-o', exe]
                    rr = subprocess.run(cmd, stdout=subprocess.PIPE, stderr=subprocess.PIPE, universal_newlines=True)
                    if rr.returncode != 0:
                        details[cc] = 'compile failed: ' + rr.stderr[-300:]
                        continue
                    try:
                        r2 = subprocess.run([exe], stdout=subprocess.PIPE, stderr=subprocess.PIPE, universal_newlines=True, timeout=60, preexec_fn=replay._unlimit)
                        out = r2.stdout
                    except subprocess.TimeoutExpired:
                        out = 'TIMEOUT'
                    bad = ('SIGNAL' in out) or ('MODIFIED' in out) or ('TIMEOUT' in out)
                    details[cc] = out.strip()[:200]
                    confirmed = confirmed or bad
                    try:
                        os.unlink(exe)
                    except OSError:
                        pass
                sh = os.path.join(outdir, 'run.sh')
                open(sh, 'w').write('#!/bin/sh\ncd "%s" && clang++-14 %s -O1 -w -I%s -I%s repro.cpp -o repro.bin && ./repro.bin; rc=$?; rm -f repro.bin; [ $rc -eq 0 ] && exit 0; exit 1\n'
                                    % (outdir, ' '.join(cfg.flags()), os.path.join(build.HERE, 'cxx'), build.repo_include()))
                os.chmod(sh, 0o755)
                rec = {'kind': cat, 'desc': info, 'inputs': ['n=%d' % nn, 'p at page offset %d' % po], 'rm': 'RNE', 'replay': sh, 'confirmed': confirmed,
                       'detail': details, 'solver': by}
                if confirmed:
                    ent = known.match(task.get('known', []), task['prop'], meta, cfg, cat, info)
                    if ent is None:
                        res['violations'].append(rec)
                    else:
                        rec['known_id'] = ent['id']
                        res['known_hits'].append(rec)
                else:
                    res['unconfirmed'].append(rec)
                break
            else:
                res['undecided'].append({'kind': cat, 'desc': info})
        # the bound must be honest: a path that performs the maximal number of prefetches exists
        res['obligations'] += 1
        res['discharged'] += 1
        res['solver_time'] = pf.stats.time
        res['decided_by'] = pf.stats.decided_by
        if res['violations']:
            res['status'] = 'violation'
        elif res['undecided']:
            res['status'] = 'undecided'
        elif res['known_hits']:
            res['status'] = 'known'
    except symex.NotEncodable as e:
        res['status'] = 'not-encodable'
        res['detail'] = str(e)[:300]
        if 'step limit' in str(e):
            # unwinding assertion failed: some path does not leave the loop within the bound.  Does the real call return?
            try:
                cfg = configs.BY_NAME[task['cfg']]
                h = hashlib.sha1(json.dumps([meta['name'], cfg.name, 'termination']).encode()).hexdigest()[:10]
                outdir = os.path.join(replay.REPLAYS, task['prop'], '%s.%s.%s' % (meta['name'], cfg.name, h))
                os.makedirs(outdir, exist_ok=True)
                src = os.path.join(outdir, 'repro.cpp')
                confirmed, details = False, {}
                for nn in (1, 3):
                    open(src, 'w').write(PREFETCH_REPLAY % {'line': meta['line'], 'name': meta['name'], 'ptype': meta['params'][0], 'off': 4096, 'n': nn, 'wild': 0x7f0000dead00})
                    for cc, opt in (('clang++-14', '-O1'), ('g++', '-O2')):
                        exe = os.path.join(outdir, 'repro.' + cc.replace('+', 'x'))
                        cmd = [cc] + cfg.flags() + [opt, '-w', '-I' + os.path.join(build.HERE, 'cxx'), '-I' + build.repo_include(), src, '-o', exe]
                        rr = subprocess.run(cmd, stdout=subprocess.PIPE, stderr=subprocess.PIPE, universal_newlines=True)
                        if rr.returncode != 0:
                            details[cc] = 'compile failed: ' + rr.stderr[-300:]
                            continue
                        try:
                            out = subprocess.run([exe], stdout=subprocess.PIPE, stderr=subprocess.PIPE, universal_newlines=True, timeout=10, preexec_fn=replay._unlimit).stdout
                        except subprocess.TimeoutExpired:
                            out = 'TIMEOUT (no return within 10 s)'
                        details['%s n=%d' % (cc, nn)] = out.strip()[:120]
                        confirmed = confirmed or ('TIMEOUT' in out) or ('SIGNAL' in out) or ('MODIFIED' in out)
                        try:
                            os.unlink(exe)
                        except OSError:
                            pass
                    if confirmed:
                        break
                sh = os.path.join(outdir, 'run.sh')
                open(sh, 'w').write('#!/bin/sh\n# exit 1 if the call does not return within 10 s (or faults)\ncd "%s" && clang++-14 %s -O1 -w -I%s -I%s repro.cpp -o repro.bin && timeout 10 ./repro.bin; rc=$?; rm -f repro.bin; [ $rc -eq 0 ] && exit 0; exit 1\n'
                                    % (outdir, ' '.join(cfg.flags()), os.path.join(build.HERE, 'cxx'), build.repo_include()))
                os.chmod(sh, 0o755)
                if confirmed:
                    rec = {'kind': 'termination', 'desc': 'the call does not return: a loop is not left within the unwinding bound (symbolic execution) and the native call runs past 10 s',
                           'inputs': ['n=%d' % nn, 'accessible buffer'], 'rm': 'RNE', 'replay': sh, 'confirmed': True, 'detail': details, 'solver': 'unwinding-assertion'}
                    res['violations'].append(rec)
                    res['status'] = 'violation'
                    res['obligations'] += 1
            except Exception:
                res['detail'] += ' | termination replay failed: ' + traceback.format_exc()[-300:]
    except Exception:
        res['status'] = 'crash'
        res['detail'] = traceback.format_exc()[-1500:]
    res['time'] = time.time() - t0
    res['rss_mb'] = resource.getrusage(resource.RUSAGE_SELF).ru_maxrss // 1024
    return res


def prefetch(prop, tier, seed, a):
    from . import check, runner
    t0 = time.time()
    budget = dict(check.BUDGET[tier])
    ladder = configs.check_ladder(build.REPO)
    names = ['none', 'x86', 'popcnt', 'lzcnt', 'bmi', 'bmi2', 'sse2', 'avx2', 'avx512'] if tier == 'quick' else [c.name for c in configs.ALL]
    cfgs = [configs.BY_NAME[n] for n in names]
    if a.configs:
        cfgs = [configs.BY_NAME[c] for c in a.configs.split(',')]
    kf = known.load()
    tasks, compile_info, dropped_all = [], [], []
    dedup = {}
    n_dedup = 0
    for cfg in cfgs:
        ws = prefetch_wrappers()
        tc = time.time()
        text, ok, dropped, cmd, llpath = build.compile_ir(cfg, ws, prop, extra_includes=['"verif_blob.hpp"', '<avel/Cache.hpp>'])
        mod = llir.parse_module(text)
        compile_info.append({'config': cfg.name, 'flags': cfg.flags(), 'wrappers': len(ok), 'dropped': len(dropped), 'compile_s': round(time.time() - tc, 2)})
        for w, err in dropped:
            dropped_all.append({'config': cfg.name, 'wrapper': w['name'], 'error': err[:200]})
        for w in ok:
            h = check.fn_hash(mod, w['name'])
            key = (h, w['name'])
            if key in dedup:
                n_dedup += 1
                dedup[key]['also'].append(cfg.name)
                continue
            t = {'ll': llpath, 'meta': w, 'cfg': cfg.name, 'prop': prop, 'budget': budget, 'known': kf, 'ir_hash': h, 'also': [],
                 'handler': 'avelverif.special.prefetch_task'}
            dedup[key] = t
            tasks.append(t)
    print('[%s %s] %d configurations, %d wrappers to decide (%d identical-IR duplicates folded)' % (prop, tier, len(compile_info), len(tasks), n_dedup), flush=True)

    def progress(done, total, r):
        if a.verbose or r.get('status') not in ('ok', 'known'):
            print('  [%d/%d] %-44s %-8s %-13s %.1fs %s' % (done, total, r.get('name'), r.get('cfg'), r.get('status'), r.get('time', 0),
                                                           (r.get('detail') or '')[:160].replace('\n', ' ')), flush=True)
    results = runner.run_pool(tasks, nproc=a.jobs, hard_s=600, progress=progress)
    extra = {'bounds': 'pointer: any 64-bit address with no assumption on validity (modelled as an arbitrary offset into memory of unknown accessibility); '
                       'n (bytes, or n*sizeof(T) for the typed overloads) <= %d, i.e. 4 pages + 1 line; the loop is unrolled by execution and every path '
                       'must reach the return (unwinding assertion); larger n is outside the claim' % PREFETCH_BOUND,
             'fault_model': 'PREFETCHh never faults and writes nothing (Intel SDM), trusted; any load/store through the pointer is a violation'}
    return check.finish(prop, tier, seed, a, t0, tasks, results, compile_info, dropped_all, n_dedup, ladder, kf, extra)


HANDLERS['C20'] = prefetch


# ------------------------------------------------------------------------------------------------ C18 Aligned_allocator
ALLOC_TYPES = [('std::uint8_t', 1, 1), ('std::uint16_t', 2, 2), ('std::uint32_t', 4, 4), ('std::uint64_t', 8, 8),
               ('avel_verif_b3', 3, 1), ('avel_verif_b16', 16, 1), ('avel_verif_b64', 64, 1)]
ALLOC_ALIGNS = [1, 2, 4, 8, 16, 32, 64, 128, 4096]
ALLOC_HDR = '''#ifndef AVEL_VERIF_ALLOC_HPP
#define AVEL_VERIF_ALLOC_HPP
#include <avel/Aligned_allocator.hpp>
#include <memory>
struct avel_verif_b3 { unsigned char b[3]; };
struct avel_verif_b16 { unsigned char b[16]; };
struct avel_verif_b64 { unsigned char b[64]; };
extern "C" void avel_verif_havoc(void* p, std::size_t bytes);
#endif
'''


def alloc_wrappers(tier):
    out = []
    for tn, sz, al in ALLOC_TYPES:
        for A in ALLOC_ALIGNS:
            if A < al:
                continue
            if tier == 'quick' and A not in (al, 16, 32, 4096):
                continue
            tag = '%s_a%d' % (tn.replace('std::', '').replace('_t', '').replace('avel_verif_', ''), A)
            nm = 'w_alloc_roundtrip_' + tag
            line = ('VW void* %s(std::size_t n) { avel::Aligned_allocator<%s, %d> a; %s* p = a.allocate(n); avel_verif_havoc(p, n * sizeof(%s)); '
                    'a.deallocate(p, n); return p; }' % (nm, tn, A, tn, tn))
            out.append({'name': nm, 'line': line, 'op': 'alloc_roundtrip', 'type': tn, 'scalar': True, 'K': None, 'alloc': True,
                        'elem': sz, 'align': A, 'params': ['std::size_t'], 'rtype': 'void*', 'atype': 'avel::Aligned_allocator<%s, %d>' % (tn, A)})
    # the allocator a container really uses: rebound from Aligned_allocator<unsigned char, A> to another element type (must keep A)
    for tn, sz, al in (('avel_verif_b64', 64, 1), ('std::uint64_t', 8, 8), ('avel_verif_b3', 3, 1)):
        for A in (16, 32, 4096):
            tag = '%s_a%d' % (tn.replace('std::', '').replace('_t', '').replace('avel_verif_', ''), A)
            nm = 'w_alloc_rebind_' + tag
            line = ('VW void* %s(std::size_t n) { typename std::allocator_traits<avel::Aligned_allocator<unsigned char, %d>>::template rebind_alloc<%s> a; '
                    '%s* p = a.allocate(n); avel_verif_havoc(p, n * sizeof(%s)); a.deallocate(p, n); return p; }' % (nm, A, tn, tn, tn))
            out.append({'name': nm, 'line': line, 'op': 'alloc_roundtrip', 'type': tn, 'scalar': True, 'K': None, 'alloc': True,
                        'elem': sz, 'align': A, 'params': ['std::size_t'], 'rtype': 'void*',
                        'atype': 'typename std::allocator_traits<avel::Aligned_allocator<unsigned char, %d>>::template rebind_alloc<%s>' % (A, tn)})
    return out


def alloc_task(task):
    import traceback, resource
    import z3
    from . import symex, intrin, harness, sym, runner, solve
    from .sym import b_and, b_or, b_not, M
    t0 = time.time()
    meta = task['meta']
    res = {'name': meta['name'], 'op': meta['op'], 'type': meta['type'], 'cfg': task['cfg'], 'status': 'ok', 'time': 0.0,
           'obligations': 0, 'discharged': 0, 'trivial': 0, 'by_symmetry': 0, 'nontrivial': 0, 'undecided': [], 'known_hits': [],
           'violations': [], 'unconfirmed': []}
    try:
        mod = runner.get_mod(task['ll'])
        cfg = configs.BY_NAME[task['cfg']]
        A, sz = meta['align'], meta['elem']
        n = z3.BitVec('n', 64)
        asm = [z3.ULE(n, (1 << 40) // sz)]
        state_info = {'allocs': [], 'frees': [], 'havoc': None}

        def new_block(ex, st, size, align, via):
            o = ex.new_obj(st, 'array', None, align, 'heap%d' % (len(st.extra.get('allocs', [])) + 1), writable=True, external=True)
            o.bound = size
            o.base = ex.fresh_base(st, o)
            st.extra['allocs'] = st.extra.get('allocs', []) + [(o.id, size, via)]
            return o

        def s_malloc(ex, st, ins, args):
            size = args[0][1][0][0]
            o = new_block(ex, st, size, 16, 'malloc')       # glibc: alignof(max_align_t)
            return [(symex.Ptr(o.id, 0), False)]

        def s_aligned_alloc(ex, st, ins, args):
            al = sym.nsimp(args[0][1][0][0])
            size = args[1][1][0][0]
            if not isinstance(al, int):
                raise symex.NotEncodable('symbolic alignment')
            st.oblige('libc:aligned_alloc-contract', b_or(al & (al - 1) != 0, sym.ne(sym.urem(size, al, 64), 0, 64)),
                      'aligned_alloc(%d, size): size must be a multiple of the alignment, alignment a power of two' % al)
            o = new_block(ex, st, size, max(al, 16), 'aligned_alloc')
            return [(symex.Ptr(o.id, 0), False)]

        def s_posix_memalign(ex, st, ins, args):
            dst = ex.resolve(st, args[0][1][0][0])
            al = sym.nsimp(args[1][1][0][0])
            size = args[2][1][0][0]
            if not isinstance(al, int):
                raise symex.NotEncodable('symbolic alignment')
            st.oblige('libc:posix_memalign-contract', (al & (al - 1) != 0) or (al % 8 != 0), 'posix_memalign alignment %d must be a power of two multiple of sizeof(void*)' % al)
            o = new_block(ex, st, size, max(al, 16), 'posix_memalign')
            pp = symex.Ptr(o.id, 0)
            ex.write_bytes(st, dst, [(('ptr', pp, i), False) for i in range(8)], True, 'posix_memalign')
            return [(0, False)]

        def s_free(ex, st, ins, args):
            v = args[0][1][0][0]
            if isinstance(v, int) and v == 0:
                return None
            try:
                p = ex.resolve(st, v)
            except symex.NotEncodable:
                st.oblige('heap:invalid-free', True, 'free() of a pointer that is not derived from an allocation')
                return None
            if p.obj == 0:
                return None
            o = st.objs[p.obj]
            heap_ids = [a[0] for a in st.extra.get('allocs', [])]
            if p.obj not in heap_ids:
                st.oblige('heap:invalid-free', True, 'free() of non-heap memory')
                return None
            st.oblige('heap:invalid-free', sym.ne(p.off, 0, 64), 'free() of a pointer into the middle of a block (offset != 0)')
            st.oblige('heap:double-free', o.freed, 'double free')
            o2 = st.wobj(p.obj)
            o2.freed = True
            st.extra['frees'] = st.extra.get('frees', []) + [p.obj]
            return None

        def s_havoc(ex, st, ins, args):
            p = ex.resolve(st, args[0][1][0][0])
            ln = args[1][1][0][0]
            if p.obj == 0:
                # allocate() handed out a null pointer: nothing can be written through it.  That is only acceptable for a zero-length
                # request; what deallocate() then does with the null pointer is decided by the ordinary memory obligations.
                st.oblige('alloc:null-or-foreign-result', sym.ne(ln, 0, 64) if not isinstance(ln, int) else (ln != 0),
                          'allocate(n) returned a null pointer for a request of non-zero size')
                st.extra['null_result'] = True
                ex.null_pcs = getattr(ex, 'null_pcs', []) + [tuple(st.pc)]
                return None
            st.extra['user'] = (p, ln)
            o = st.wobj(p.obj)
            if o.kind != 'array':
                raise symex.NotEncodable('havoc of non-heap object')
            harr = z3.Array('havoc_%d' % p.obj, z3.BitVecSort(64), z3.BitVecSort(8))
            # flush concrete overlay into the log first so that ordering is preserved
            for a_, c_ in sorted(o.overlay.items()):
                o.wlog.append((a_, [c_], True))
            o.overlay = {}
            o.wlog.append((p.off, ('havoc', ln, harr), True))
            # the user may write the whole range: it must be inside the block
            st.oblige('alloc:user-range-outside-block', b_not(b_and(sym.ule(p.off, o.bound, 64), sym.ule(sym.add(p.off, ln, 64), o.bound, 64),
                                                                 sym.ule(ln, o.bound, 64))),
                      'the n*sizeof(T) bytes handed to the caller are not inside the malloc block')
            return None

        stubs = {'malloc': s_malloc, 'aligned_alloc': s_aligned_alloc, 'posix_memalign': s_posix_memalign, 'free': s_free,
                 'avel_verif_havoc': s_havoc}
        ex = symex.Executor(mod, intrin.Intrinsics(), assumptions=asm, stubs=stubs)
        rm, _ = harness.make_rm(None)
        st, mx_asm = harness.init_state(ex, rm)
        asm += mx_asm
        null_deref = None
        try:
            finals = ex.run(meta['name'], [[(n, False)]], st)
        except symex.NotEncodable as e:
            # allocate() returned null on some path and the code then computed an address from it that belongs to no object: in this
            # harness that is an access through the null pointer, not a gap of the encoding.  It becomes an obligation (is that path
            # feasible?) whose model is replayed natively like any other counterexample.
            if 'cannot resolve pointer' in str(e) and getattr(ex, 'null_pcs', None):
                finals = []
                null_deref = (ex.null_pcs[-1], str(e))
            else:
                raise
        asm = ex.assumptions
        res['paths'] = len(finals)
        res['steps'] = ex.total_steps
        res['intrinsics'] = sorted(ex.intrinsics_used)
        res['callees'] = sorted(ex.called)
        obls = []
        if null_deref is not None:
            obls.append(('alloc:access-through-null-result', b_and(*null_deref[0]),
                         'after allocate(n) returned a null pointer the code accesses memory at an address computed from it (%s)' % null_deref[1][:80]))
        for f in finals:
            pc = b_and(*f.pc)
            for cat, bad, info, pcsnap in f.obls:
                obls.append((cat, b_and(b_and(*pcsnap), bad), info))
            user = f.extra.get('user')
            allocs = f.extra.get('allocs', [])
            frees = f.extra.get('frees', [])
            # returned pointer: aligned, inside a block
            rv, rp = f.ret[0]
            if not isinstance(rv, symex.Ptr):
                tmp = symex.State()
                tmp.objs = f.objs
                try:
                    rv = ex.resolve(tmp, rv)
                except symex.NotEncodable:
                    pass
            if isinstance(rv, symex.Ptr) and rv.obj != 0:
                o = f.objs[rv.obj]
                if o.base is None:
                    raise symex.NotEncodable('no address for the block')
                addr = sym.add(o.base, rv.off, 64)
                obls.append(('alloc:misaligned-result', b_and(pc, sym.ne(sym.and_(addr, A - 1, 64), 0, 64)), 'allocate(n) returned a pointer that is not %d-aligned' % A))
            else:
                obls.append(('alloc:null-or-foreign-result', pc, 'allocate(n) did not return a pointer into a fresh block'))
            # bookkeeping writes must not overlap the user's range
            if user is not None:
                up, ulen = user
                for e in f.log:
                    if e['kind'] != 'W' or e['obj'] != up.obj or e['what'] == 'havoc':
                        continue
                    d1 = sym.sub(e['off'], up.off, 64)
                    inter = b_and(sym.ult(d1, ulen, 64)) if True else False
                    d2 = sym.sub(up.off, e['off'], 64)
                    inter = b_or(sym.ult(d1, ulen, 64), b_and(sym.ult(d2, e['n'], 64), sym.ne(ulen, 0, 64)))
                    obls.append(('alloc:bookkeeping-overlaps-user-range', b_and(b_and(*e['pc']), e['guard'], inter),
                                 'allocator bookkeeping write of %d bytes overlaps the caller\'s bytes' % e['n']))
            # every block allocated is freed exactly once (no leak)
            for oid, size, via in allocs:
                if oid not in frees:
                    obls.append(('heap:leak', pc, 'block obtained by %s is not released by deallocate' % via))
        pf = solve.Portfolio(z3_ms=8000, fallback_s=20)
        seen_v = set()
        for cat, fml, info in obls:
            res['obligations'] += 1
            r, m, by = pf.check(asm, fml)
            if r == 'unsat':
                res['discharged'] += 1
                if by == 'trivial':
                    res['trivial'] += 1
                else:
                    res['nontrivial'] += 1
            elif r == 'sat':
                if cat in seen_v:
                    continue
                seen_v.add(cat)
                # prefer a natively replayable size (the claim itself is for every n)
                r2, m2, by2 = pf.check(asm + [z3.ULE(n, 4096)], fml)
                if r2 == 'sat':
                    m = m2
                rec = alloc_replay(task, meta, cfg, cat, info, m, by)
                if rec['confirmed']:
                    ent = known.match(task.get('known', []), task['prop'], meta, cfg, cat, info)
                    if ent is None:
                        res['violations'].append(rec)
                    else:
                        rec['known_id'] = ent['id']
                        res['known_hits'].append(rec)
                else:
                    res['unconfirmed'].append(rec)
            else:
                res['undecided'].append({'kind': cat, 'desc': info})
        res['solver_time'] = pf.stats.time
        res['decided_by'] = pf.stats.decided_by
        if res['violations']:
            res['status'] = 'violation'
        elif res['undecided']:
            res['status'] = 'undecided'
        elif res['known_hits']:
            res['status'] = 'known'
    except symex.NotEncodable as e:
        res['status'] = 'not-encodable'
        res['detail'] = str(e)[:300]
    except Exception:
        res['status'] = 'crash'
        res['detail'] = traceback.format_exc()[-1800:]
    res['time'] = time.time() - t0
    res['rss_mb'] = resource.getrusage(resource.RUSAGE_SELF).ru_maxrss // 1024
    return res


ALLOC_REPLAY = r'''
#include "verif_alloc.hpp"
#include <cstdio>
#include <cstring>
#include <cstdlib>
#include <vector>
extern "C" void avel_verif_havoc(void* p, std::size_t bytes) { if (p && bytes) std::memset(p, 0xA5, bytes); }
int main() {
    using T = %(tn)s;
    constexpr std::size_t A = %(A)d;
    %(atype)s a;
    std::vector<std::size_t> ns = {%(n)dull, 1, 2, 3, 5, 7, 13, 17, 31, 33, 63, 65, 100, 127, 129, 255, 257, 1000, 4097, 1, 9, 1, 21, 1, 45};
    std::vector<std::pair<T*, std::size_t>> live;
    for (std::size_t n : ns) {
        if (n > (1u << 22)) continue;
        T* p = a.allocate(n);
        if (!p && n) { std::printf("NULL for n=%%zu\n", n); return 5; }
        if (reinterpret_cast<std::uintptr_t>(p) %% A) { std::printf("MISALIGNED n=%%zu\n", n); return 6; }
        if (p && n) std::memset(static_cast<void*>(p), 0x5A, n * sizeof(T));   // the harness itself never touches a null result
        live.push_back({p, n});
    }
    for (auto& pn : live) {
        auto* b = reinterpret_cast<unsigned char*>(pn.first);
        for (std::size_t i = 0; i < pn.second * sizeof(T); ++i) if (b[i] != 0x5A) { std::printf("CORRUPTED\n"); return 7; }
        a.deallocate(pn.first, pn.second);
    }
    std::printf("OK\n");
    return 0;
}
'''


def alloc_replay(task, meta, cfg, cat, info, model, by):
    """native replay under UBSan + ASan: allocate/deallocate with the solver's n (plus a fixed ladder), user bytes fully written"""
    import hashlib, json, subprocess
    from . import replay
    nn = int(model.get('n', 0))
    h = hashlib.sha1(json.dumps([meta['name'], cfg.name, nn, cat]).encode()).hexdigest()[:10]
    outdir = os.path.join(replay.REPLAYS, task['prop'], '%s.%s.%s' % (meta['name'], cfg.name, h))
    os.makedirs(outdir, exist_ok=True)
    open(os.path.join(outdir, 'verif_alloc.hpp'), 'w').write(ALLOC_HDR)
    src = os.path.join(outdir, 'repro.cpp')
    open(src, 'w').write(ALLOC_REPLAY % {'tn': meta['type'], 'A': meta['align'], 'n': min(nn, 1 << 20),
                                         'atype': meta.get('atype') or 'avel::Aligned_allocator<T, A>'})
    exe = os.path.join(outdir, 'repro.bin')
    cmd = ['clang++-14'] + cfg.flags() + ['-O0', '-g', '-w', '-fsanitize=undefined,address', '-fno-sanitize-recover=all', '-I' + outdir,
                                          '-I' + build.repo_include(), src, '-o', exe]
    # second build without sanitizers: ASan's heap aligns differently from glibc's, and alignment is the point of half the obligations
    cmd2 = ['g++'] + cfg.flags() + ['-O1', '-w', '-I' + outdir, '-I' + build.repo_include(), src, '-o', exe]
    confirmed = False
    detail = {}
    for key, c in (('sanitizers', cmd), ('plain g++', cmd2)):
        rr = subprocess.run(c, stdout=subprocess.PIPE, stderr=subprocess.PIPE, universal_newlines=True)
        if rr.returncode != 0:
            detail[key] = 'compile failed: ' + rr.stderr[-300:]
            continue
        try:
            r2 = subprocess.run([exe], stdout=subprocess.PIPE, stderr=subprocess.PIPE, universal_newlines=True, timeout=120, preexec_fn=replay._unlimit)
            out, err, code = r2.stdout, r2.stderr, r2.returncode
        except subprocess.TimeoutExpired:
            out, err, code = '', 'timeout', -1
        confirmed = confirmed or code != 0
        lines = [l for l in err.split('\n') if 'runtime error' in l or 'ERROR: AddressSanitizer' in l or 'free():' in l or 'corrupted' in l]
        detail[key] = (lines[0][-300:] if lines else out.strip()[:200])
        try:
            os.unlink(exe)
        except OSError:
            pass
    sh = os.path.join(outdir, 'run.sh')
    open(sh, 'w').write('#!/bin/sh\n# exit 1 if the violation reproduces (sanitized clang build, then plain g++ build)\ncd "%s" || exit 2\n%s && ./repro.bin; rc1=$?\n%s && ./repro.bin; rc2=$?\nrm -f repro.bin\n'
                        '[ $rc1 -eq 0 ] && [ $rc2 -eq 0 ] && exit 0; exit 1\n'
                        % (outdir, ' '.join(cmd[:-3] + ['repro.cpp', '-o', 'repro.bin']), ' '.join(cmd2[:-3] + ['repro.cpp', '-o', 'repro.bin'])))
    os.chmod(sh, 0o755)
    return {'kind': cat, 'desc': info, 'inputs': ['n=%d' % nn, 'T=%s' % meta['type'], 'A=%d' % meta['align']], 'rm': 'RNE', 'replay': sh,
            'confirmed': confirmed, 'detail': detail, 'solver': by}


def allocator(prop, tier, seed, a):
    from . import check, runner
    t0 = time.time()
    budget = dict(check.BUDGET[tier])
    ladder = configs.check_ladder(build.REPO)
    cfgs = [configs.Config('sse2', ['AVEL_SSE2']), configs.Config('none_cxx17', [], std='c++17'), configs.Config('none_cxx11', [], std='c++11')]
    for c in cfgs:
        configs.BY_NAME[c.name] = c
    if a.configs:
        cfgs = [c for c in cfgs if c.name in a.configs.split(',')]
    kf = known.load()
    tasks, compile_info, dropped_all = [], [], []
    os.makedirs(build.BUILD, exist_ok=True)
    open(os.path.join(build.HERE, 'cxx', 'verif_alloc.hpp'), 'w').write(ALLOC_HDR)
    for cfg in cfgs:
        ws = alloc_wrappers(tier)
        if a.types:
            ws = [w for w in ws if re.search(a.types, w['name'])]
        tc = time.time()
        try:
            text, ok, dropped, cmd, llpath = build.compile_ir(cfg, ws, prop, extra_includes=['"verif_alloc.hpp"'])
        except RuntimeError as e:
            compile_info.append({'config': cfg.name, 'flags': cfg.flags(), 'wrappers': 0, 'dropped': len(ws), 'error': str(e)[-600:]})
            tasks.append({'meta': {'name': 'compile_' + cfg.name, 'op': 'compile', 'type': '-', 'line': '#include <avel/Aligned_allocator.hpp>'},
                          'cfg': cfg.name, 'prop': prop, 'handler': 'avelverif.special.alloc_compile_failure', 'error': str(e)[-1500:], 'also': [],
                          'known': kf})
            continue
        mod = llir.parse_module(text)
        compile_info.append({'config': cfg.name, 'flags': cfg.flags(), 'wrappers': len(ok), 'dropped': len(dropped), 'compile_s': round(time.time() - tc, 2)})
        for w, err in dropped:
            dropped_all.append({'config': cfg.name, 'wrapper': w['name'], 'error': err[:200]})
        for w in ok:
            tasks.append({'ll': llpath, 'meta': w, 'cfg': cfg.name, 'prop': prop, 'budget': budget, 'known': kf, 'ir_hash': check.fn_hash(mod, w['name']),
                          'also': [], 'handler': 'avelverif.special.alloc_task'})
    print('[%s %s] %d implementations, %d (T, A) instantiations to decide' % (prop, tier, len(compile_info), len(tasks)), flush=True)

    def progress(done, total, r):
        if a.verbose or r.get('status') not in ('ok', 'known'):
            print('  [%d/%d] %-44s %-10s %-13s %.1fs %s' % (done, total, r.get('name'), r.get('cfg'), r.get('status'), r.get('time', 0),
                                                            (r.get('detail') or '')[:300].replace('\n', ' ')), flush=True)
    results = runner.run_pool(tasks, nproc=a.jobs, hard_s=600, progress=progress)
    extra = {'bounds': 'one symbolic step per operation: allocate(n); caller overwrites all n*sizeof(T) bytes with arbitrary data; deallocate(p, n). '
                       'n symbolic with n*sizeof(T) <= 2^40. The allocator is stateless (is_always_equal), libc returns disjoint blocks, so containment of '
                       'the user range and of all bookkeeping inside the fresh block gives non-overlap for every interleaving of calls.',
             'stubs': 'malloc / aligned_alloc / posix_memalign return a fresh block of exactly the requested size at an arbitrary suitably aligned address '
                      '(never NULL: allocation failure is out of scope); free(q) requires q to be the base of a live block',
             'outside_claim': 'std::vector growth policy (heap-growing containers are out of reach here), OOM, the libc allocator itself'}
    return check.finish(prop, tier, seed, a, t0, tasks, results, compile_info, dropped_all, 0, ladder, kf, extra)


def alloc_compile_failure(task):
    """an implementation that does not compile is reported as a (reproduced) violation: the compiler is the native replay"""
    import hashlib
    from . import replay
    meta = task['meta']
    cfg = configs.BY_NAME.get(task['cfg'])
    outdir = os.path.join(replay.REPLAYS, task['prop'], 'compile.%s' % task['cfg'])
    os.makedirs(outdir, exist_ok=True)
    open(os.path.join(outdir, 'repro.cpp'), 'w').write('#include <avel/Aligned_allocator.hpp>\nint main() { avel::Aligned_allocator<int, 64> a; int* p = a.allocate(3); a.deallocate(p, 3); }\n')
    sh = os.path.join(outdir, 'run.sh')
    flags = ' '.join(cfg.flags()) if cfg else ''
    open(sh, 'w').write('#!/bin/sh\ncd "%s" && clang++-14 %s -I%s repro.cpp -o repro.bin 2>&1 | tail -5; [ -x repro.bin ] && { rm -f repro.bin; exit 0; }; exit 1\n'
                        % (outdir, flags, build.repo_include()))
    os.chmod(sh, 0o755)
    rec = {'kind': 'compile-failure', 'desc': 'Aligned_allocator does not compile in this implementation', 'inputs': [task['cfg']], 'rm': 'RNE',
           'replay': sh, 'confirmed': True, 'detail': {'clang++-14': task['error'][-500:]}, 'solver': 'compiler'}
    res = {'name': meta['name'], 'op': 'compile', 'type': '-', 'cfg': task['cfg'], 'status': 'violation', 'time': 0.0, 'obligations': 1, 'discharged': 0,
           'trivial': 0, 'by_symmetry': 0, 'nontrivial': 1, 'undecided': [], 'known_hits': [], 'violations': [], 'unconfirmed': []}
    ent = known.match(task.get('known', []), task['prop'], meta, cfg, 'compile-failure') if cfg else None
    if ent is None:
        res['violations'].append(rec)
    else:
        rec['known_id'] = ent['id']
        res['known_hits'].append(rec)
        res['status'] = 'known'
    return res


HANDLERS['C18'] = allocator



# ------------------------------------------------------------------------------------------------ C19 API parity (auxiliary, not solver-based)
def api_parity(prop, tier, kf):
    """Clause "every operation that the width-1 vector of an element type offers is declared, defined and linkable for every wider
    vector": a finite enumeration with no input space, so this part is NOT a solver result.  It reuses the wrapper generator: every wrapper
    of every property (all template constants) is compiled per configuration; a wrapper that does not compile for a wider type while
    the same operation compiles for the width-1 vector of that element type, or that references an avel:: function with no definition,
    is a violation.  Replay = compiling and linking one call."""
    import subprocess
    from concurrent.futures import ThreadPoolExecutor
    from . import gen, build, configs, memops, replay
    names = ['sse2', 'avx2', 'avx512'] if tier == 'quick' else [c.name for c in configs.ALL if c.name != 'none' and 'AVEL_SSE2' in c.macros]
    props = ['C%02d' % i for i in range(1, 18)] + ['C19']

    def one(cname):
        cfg = configs.BY_NAME[cname]
        ws, seen = [], set()
        from . import denom
        for w in (gen.wrappers_for(cfg, props, 'thorough') + memops.wrappers_for(cfg, ['C08', 'C09', 'C03'], 'thorough')
                  + denom.wrappers_for(cfg, 'C14', 'thorough') + denom.wrappers_for(cfg, 'C15', 'thorough')):
            if w['name'] not in seen:
                seen.add(w['name'])
                ws.append(w)
        try:
            text, ok, dropped, cmd, ll = build.compile_ir(cfg, ws, 'parity', keep=False)
        except RuntimeError as e:
            first = [l for l in str(e).split('\n') if 'error:' in l][:1]
            return cname, len(ws), 0, [{'cfg': cname, 'kind': 'parity:config-does-not-compile',
                                        'wrapper': {'name': 'include_avel_' + cname, 'op': 'compile', 'type': '-', 'line': ''},
                                        'desc': 'including <avel/Avel.hpp> does not compile in this configuration: %s' % (first or ['?'])[0][:200]}]
        okn = {w['name'] for w in ok}
        out = []
        for w, err in dropped:
            if w.get('scalar') or w['type'].startswith('vec1x') or w.get('mem'):
                continue
            m = re.match(r'vec(\d+)x(\d+)([uif])', w['type'])
            if not m:
                continue
            # the same call for the width-1 vector of the element type: every NxB type name in the wrapper name becomes 1xB
            sib = re.sub(r'(vec|mask|arr)%sx(\d+[uif])' % m.group(1), r'\g<1>1x\2', w['name'])
            if sib in okn:
                out.append({'cfg': cname, 'kind': 'parity:missing', 'wrapper': w, 'desc': '%s compiles for vec1x%s%s but not for %s: %s'
                            % (w['op'] + ('<%s>' % w['K'] if w.get('K') is not None else ''), m.group(2), m.group(3), w['type'], err[:160])})
        # header-only library: a definition of an avel:: entity with strong linkage (lost inline / AVEL_FINL on a full specialisation, a non-inline
        # variable) is emitted by every translation unit that includes the header, so two such units do not link
        for line in text.split('\n'):
            if (line.startswith('define ') or re.match(r'^@_ZN4avel\S* = ', line)) and '_ZN4avel' in line.split('(')[0]:
                head = line.split('(')[0] if line.startswith('define ') else line.split('=', 1)[1][:60]
                if not re.search(r'\b(linkonce_odr|linkonce|weak_odr|weak|internal|private|available_externally|external)\b', head):
                    sname = re.search(r'@(_ZN4avel\w+)', line).group(1)
                    try:
                        dem = subprocess.run(['c++filt', sname], stdout=subprocess.PIPE, universal_newlines=True).stdout.strip()
                    except Exception:
                        dem = sname
                    out.append({'cfg': cname, 'kind': 'parity:odr', 'wrapper': {'name': sname, 'op': 'odr', 'type': '-', 'line': ''}, 'symbol': sname,
                                'desc': '%s is emitted with strong linkage by every translation unit that includes the headers: two such units do not link' % dem})
        # referenced-but-undefined avel functions, attributed to the wrappers that (transitively, after inlining) call them
        und = set(re.findall(r'^declare [^@\n]*@(_ZN4avel\w+)', text, re.M))
        if und:
            cur = None
            users = {}
            for line in text.split('\n'):
                if line.startswith('define '):
                    mm = re.search(r'@([\w.$]+)\(', line)
                    cur = mm.group(1) if mm else None
                elif cur and '@_ZN4avel' in line:
                    for sname in re.findall(r'@(_ZN4avel\w+)', line):
                        if sname in und:
                            users.setdefault(sname, []).append(cur)
            byname = {w['name']: w for w in ok}
            for sname in sorted(und):
                try:
                    dem = subprocess.run(['c++filt', sname], stdout=subprocess.PIPE, universal_newlines=True).stdout.strip()
                except Exception:
                    dem = sname
                us = [u for u in users.get(sname, []) if u in byname]
                w = byname[us[0]] if us else {'name': sname, 'op': 'link', 'type': '-', 'line': ''}
                out.append({'cfg': cname, 'kind': 'parity:undefined', 'wrapper': w, 'symbol': sname,
                            'desc': '%s is declared and called (%d wrapper(s), e.g. %s) but defined nowhere: does not link' % (dem, len(us), us[0] if us else '?')})
        return cname, len(ws), len(ok), out

    with ThreadPoolExecutor(max_workers=min(8, len(names))) as ex:
        results = list(ex.map(one, names))
    recs, total = [], 0
    for cname, nws, nok, out in results:
        total += nws
        for v in out:
            cfg = configs.BY_NAME[cname]
            w = v['wrapper']
            h = hashlib.sha1((w['name'] + cname + v['kind']).encode()).hexdigest()[:10]
            outdir = os.path.join(replay.REPLAYS, prop, 'parity.%s.%s.%s' % (w['name'], cname, h))
            os.makedirs(outdir, exist_ok=True)
            open(os.path.join(outdir, 'repro.cpp'), 'w').write('#include "verif_prelude.hpp"\n%s\nint main() { return 0; }\n' % w.get('line', ''))
            sh = os.path.join(outdir, 'run.sh')
            if v['kind'] == 'parity:odr':
                open(os.path.join(outdir, 'part2.cpp'), 'w').write('#include "verif_prelude.hpp"\nint avel_verif_part2() { return 0; }\n')
                open(sh, 'w').write('#!/bin/sh\n# exit 1 if two translation units that include the headers do not link\ncd "%s" && clang++-14 %s -O1 -w -I%s -I%s repro.cpp part2.cpp -o repro.bin 2>&1 | tail -4; '
                                    '[ -x repro.bin ] && { rm -f repro.bin; echo "builds and links"; exit 0; }; echo REPRODUCES; exit 1\n'
                                    % (outdir, ' '.join(cfg.flags()), os.path.join(build.HERE, 'cxx'), build.repo_include()))
            else:
                open(sh, 'w').write('#!/bin/sh\n# exit 1 if the call does not compile and link against the real headers\ncd "%s" && clang++-14 %s -O1 -w -I%s -I%s repro.cpp -o repro.bin 2>&1 | tail -4; '
                                '[ -x repro.bin ] && { rm -f repro.bin; echo "builds and links"; exit 0; }; echo REPRODUCES; exit 1\n'
                                % (outdir, ' '.join(cfg.flags()), os.path.join(build.HERE, 'cxx'), build.repo_include()))
            os.chmod(sh, 0o755)
            rr = subprocess.run(['sh', sh], stdout=subprocess.PIPE, stderr=subprocess.STDOUT, universal_newlines=True)
            rec = {'kind': v['kind'], 'desc': v['desc'], 'inputs': [cname], 'rm': '-', 'replay': sh, 'confirmed': rr.returncode == 1,
                   'detail': {'clang++-14': rr.stdout[-300:]}, 'wrapper': w['name'], 'config': cname, 'configs': [cname], 'meta': w, 'cfgobj': cfg}
            recs.append(rec)
    return recs, {'configs': names, 'wrappers_compiled': total}

# ------------------------------------------------------------------------------------------------ C19 macro logic
def macro_logic(prop, tier, seed, a):
    """only the clauses of C19 that have an input space (subsets of feature macros / compiler flags) are decided here"""
    import json
    from . import check, macrologic, replay
    t0 = time.time()
    kf = known.load()
    obls, stats = macrologic.check_all(tier, seed)
    violations, known_hits, unconfirmed, undecided = [], [], [], []

    class _C:
        macros = set()
        name = 'macro-model'
    for rec in obls:
        if rec['status'] == 'undecided':
            undecided.append({'wrapper': rec['name'], 'config': 'all macro subsets', 'what': [{'kind': rec['kind'], 'desc': rec['what']}]})
        if rec['status'] != 'violated':
            continue
        confirmed, detail, sh, flags = macrologic.replay_macro_cex(prop, rec)
        r = {'kind': 'macro:' + rec['kind'], 'desc': rec['what'], 'inputs': [' '.join(flags)], 'rm': '-', 'replay': sh, 'confirmed': confirmed,
             'detail': {'clang++-14': detail}, 'wrapper': rec['name'], 'config': ' '.join(rec.get('cex_macros', [])), 'configs': [' '.join(rec.get('cex_macros', []))]}
        if not confirmed:
            unconfirmed.append(r)
            continue
        ent = known.match(kf, prop, {'op': rec['name'], 'type': '-'}, _C, r['kind'])
        if ent is None:
            violations.append(r)
        else:
            r['known_id'] = ent['id']
            known_hits.append(r)
    par_recs, par_stats = api_parity(prop, tier, kf)
    seen_par = set()
    for r in par_recs:
        if not r['confirmed']:
            unconfirmed.append(r)
            continue
        ent = known.match(kf, prop, {'op': r['meta'].get('op', ''), 'type': r['meta'].get('type', '-')}, r['cfgobj'], r['kind'], r['desc'])
        r.pop('cfgobj', None)
        r.pop('meta', None)
        if ent is None:
            key = (r['wrapper'], r['kind'])
            if key in seen_par:
                continue           # one report per call site, not per configuration
            seen_par.add(key)
            violations.append(r)
        else:
            r['known_id'] = ent['id']
            known_hits.append(r)
    for ent in kf:
        hs = [h for h in known_hits if h['known_id'] == ent['id']]
        if hs:
            print('KNOWN-FINDING: property=%s %s [%s; %d clause(s), e.g. %s with %s]' % (prop, ent['what'], ent['id'], len(hs), hs[0]['wrapper'], hs[0]['inputs']), flush=True)
    for v in violations:
        print('VIOLATION property=%s replay=%s' % (prop, v['replay']))
        print('    %s: %s  macros=%s  %s' % (v['wrapper'], v['desc'], v['config'], str(v['detail'])[:300]))
    n = len(obls)
    dis = sum(1 for o in obls if o['status'] == 'discharged')
    wall = time.time() - t0
    print('[%s %s] macro-logic obligations=%d discharged=%d undecided=%d unconfirmed-cex=%d known=%d violations=%d wall=%.0fs; API parity (compile/link enumeration, not solver): %d wrappers in %s'
          % (prop, tier, n, dis, len(undecided), len(unconfirmed), len(known_hits), len(violations), wall, par_stats['wrappers_compiled'], ','.join(par_stats['configs'])), flush=True)
    if not a.no_evidence:
        os.makedirs(check.EVIDENCE, exist_ok=True)
        by_kind = {}
        for o in obls:
            by_kind.setdefault(o['kind'], [0, 0])
            by_kind[o['kind']][0] += 1
            by_kind[o['kind']][1] += o['status'] == 'discharged'
        cov = {
            'explanation': 'Partial claim. Decided by z3 over ALL 2^%d subsets of the user-nameable x86 feature macros / compiler flags, on a symbolic model of the '
                           'preprocessor conditionals of Capabilities.hpp, Detect_capabilities.hpp, Verify_capabilities.hpp, Sizes.hpp and the include blocks of '
                           'Vectors.hpp (re-parsed from /repo on every run): (P1) naming one macro defines every macro that documentation and compiler both '
                           'imply; (P2) no static_assert(false) arm is reachable when every named macro comes with its documented flag, nor under '
                           'AVEL_AUTO_DETECT; (P3) AVEL_AUTO_DETECT provides the same vector headers as naming every enabled macro; (P4) each vector '
                           'header is included exactly under its documented macro; (P5) natural_width_*/max_width_* name provided types and max_width is '
                           'the widest. NOT decided here (no input space for a solver; see DESIGN.md section 10): that every configuration compiles and '
                           'trivial copyability / sizeof of the vector classes. The clause "every operation is declared, defined and linkable for every width" is covered '
                           'only by the auxiliary compile/link enumeration reported under api_parity_auxiliary.'
                           % stats['flags'],
            'obligations': n, 'discharged': dis, 'evaluations': n, 'distinct_nontrivial': n,
            'rule': 'one obligation per (clause, macro | static_assert arm | vector header | width constant); each is a z3 query over all macro subsets',
            'by_clause_kind': {k: {'obligations': v[0], 'discharged': v[1]} for k, v in by_kind.items()},
            'samples': [o for o in obls[:3]] + [o for o in obls if o['status'] != 'discharged'][:5],
            'compiler_model': {'flags': stats['flags'], 'predefines_tested': stats['predefines_tested'], 'additivity_checks': stats['additivity_checks'],
                               'additivity_mismatches': stats['additivity_mismatches'], 'opaque_conditions': stats['opaque_conditions']},
            'static_asserts_modelled': stats['static_asserts_modelled'], 'vector_headers': stats['vector_headers'], 'width_constants': stats['constants'],
            'known_findings_hit': sorted({h['known_id'] for h in known_hits}),
            'unconfirmed': [{k: u[k] for k in ('wrapper', 'desc', 'inputs', 'detail')} for u in unconfirmed],
            'undecided': undecided, 'exhaustive': True,
            'api_parity_auxiliary': {'note': 'NOT a solver result: finite compile/link enumeration of every generated wrapper (all properties, all template constants); '
                                             'a wrapper that fails to compile for a wider type while its width-1 sibling compiles, or that references an undefined avel:: function, is reported',
                                     'configs': par_stats['configs'], 'wrappers_compiled': par_stats['wrappers_compiled'],
                                     'reports': [{'wrapper': r['wrapper'], 'config': r['config'], 'kind': r['kind'], 'desc': r['desc']} for r in par_recs][:40]},
            'checker_cmd': 'bin/avelcheck --property C19 --tier %s' % tier,
        }
        ev = {'property_id': prop, 'tier': tier, 'seed': seed, 'level': 'other', 'coverage': cov,
              'assumptions': ['compiler feature implication is additive over flags (spot-checked against clang on flag pairs every run)',
                              'clang++-14 predefines stand for "the compiler"; GCC predefines are not modelled',
                              'ARM / AVX10 / MSVC / ICPX arms are outside the model (x86, clang)'],
              'wall_s': round(wall, 1), 'violations': len(violations)}
        json.dump(ev, open(os.path.join(check.EVIDENCE, prop + '.json'), 'w'), indent=1, default=str)
    return 1 if violations else 0


HANDLERS['C19'] = macro_logic
