"""Property-specific harnesses that are not plain register-to-register wrappers (memory, allocator, prefetch, macros)."""
HANDLERS = {}
