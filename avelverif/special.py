"""Property-specific harnesses that are not plain register-to-register wrappers (denominators, allocator, prefetch, macros)."""
import os
import re
import time

from . import build, configs, llir, known, sysconsts, ops


def denominators(prop, tier, seed, a):
    from . import check, denom, runner
    t0 = time.time()
    budget = dict(check.BUDGET[tier])
    budget['group_ms'] = 1000
    ladder = configs.check_ladder(build.REPO)
    cfgs = configs.for_tier(tier)
    if a.configs:
        cfgs = [configs.BY_NAME[c] for c in a.configs.split(',')]
    kf = known.load()
    tasks, compile_info, dropped_all = [], [], []
    dedup = {}
    n_dedup = 0
    for cfg in cfgs:
        ws = denom.wrappers_for(cfg, prop, tier)
        if a.ops:
            ws = [w for w in ws if re.search(a.ops, w['op'])]
        if a.types:
            ws = [w for w in ws if re.search(a.types, w['type'])]
        if not ws:
            continue
        tc = time.time()
        text, ok, dropped, cmd, llpath = build.compile_ir(cfg, ws, prop)
        mod = llir.parse_module(text)
        compile_info.append({'config': cfg.name, 'flags': cfg.flags(), 'wrappers': len(ok), 'dropped': len(dropped), 'compile_s': round(time.time() - tc, 2)})
        for w, err in dropped:
            dropped_all.append({'config': cfg.name, 'wrapper': w['name'], 'error': err[:200]})
        for w in ok:
            h = check.fn_hash(mod, w['name'])
            key = (h, w['op'], w['type'])
            if key in dedup:
                n_dedup += 1
                dedup[key]['also'].append(cfg.name)
                continue
            groups = denom.groups_for(w, tier, seed)
            t = {'ll': llpath, 'meta': w, 'cfg': cfg.name, 'prop': prop, 'budget': budget, 'known': kf, 'ir_hash': h, 'also': [],
                 'handler': 'avelverif.denom.solve_task', 'groups': groups, 'tier': tier, 'soft_s': 150 if tier == 'quick' else 2400}
            dedup[key] = t
            tasks.append(t)
    print('[%s %s] %d configurations, %d wrappers x divisor lattices to decide (%d identical-IR duplicates folded), %d dropped at compile time'
          % (prop, tier, len(compile_info), len(tasks), n_dedup, len(dropped_all)), flush=True)

    def progress(done, total, r):
        if a.verbose or r.get('status') not in ('ok', 'known'):
            print('  [%d/%d] %-40s %-8s %-13s %.1fs %s' % (done, total, r.get('name'), r.get('cfg'), r.get('status'), r.get('time', 0),
                                                           (r.get('detail') or '')[:120].replace('\n', ' ')), flush=True)
    results = runner.run_pool(tasks, nproc=a.jobs, hard_s=budget['hard_s'] if tier == 'quick' else 3000, progress=progress)
    extra = {'bounds': 'numerator: every value of the type; divisor: every value for 8-bit types (symbolic), enumerated lattice otherwise '
                       '(powers of two and neighbours, +-1, extremes, 0xAA../0x55.. patterns%s); divisors outside the lattice are outside the claim for 16/32/64-bit types'
                       % (', every 16-bit divisor for the scalar types, seeded random values' if tier == 'thorough' else ''),
             'divisor_groups': sum(len(t['groups']) for t in tasks),
             'divisor_groups_done': sum((r or {}).get('groups_done', 0) for r in results)}
    return check.finish(prop, tier, seed, a, t0, tasks, results, compile_info, dropped_all, n_dedup, ladder, kf, extra)


def scalar_equiv(prop, tier, seed, a):
    """C16: every scalar overload against the same oracle the vector lanes are checked against (C04/C06/C07/C10-C13), under
    every scalar instruction-set selection; thorough also re-runs the vector side under this property."""
    from . import check
    t0 = time.time()
    names = ['none', 'x86', 'popcnt', 'lzcnt', 'bmi', 'bmi2', 'sse2', 'sse42', 'avx2', 'avx512']
    cfgs = [configs.BY_NAME[n] for n in names]
    if tier == 'thorough':
        cfgs = configs.ALL
    extra = {'note': 'scalar overloads and vector lanes are decided against one and the same oracle per operation; equality of the two '
                     'follows by transitivity wherever both sides are discharged (vector side: evidence of C04, C06, C07, C11, C12, C13)'}
    return check.run_wrapper_property(prop, tier, seed, a, t0, extra_evidence=extra, cfgs=cfgs,
                                      gen_kwargs={'scalars_only': tier != 'thorough'})


HANDLERS = {'C14': denominators, 'C15': denominators, 'C16': scalar_equiv}
