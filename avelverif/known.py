"""Known findings: genuine defects of the pinned tree that are recorded instead of repaired.
File: /verif/known_findings.json (committed, never written at run time).  An entry identifies the failing call site
(operation, vector type pattern, configuration predicate, obligation class) and, where a solver-certified good region
exists, the input region the defect is confined to - so any violation outside the entry is still reported."""
import json
import os
import re

import z3
from . import sym, fp
from .sym import M

ROOT = os.path.dirname(os.path.dirname(os.path.abspath(__file__)))
PATH = os.path.join(ROOT, 'known_findings.json')


def load():
    if not os.path.exists(PATH):
        return []
    d = json.load(open(PATH))
    return d.get('findings', [])


def entry_applies(ent, prop, meta, cfg, kind, desc=''):
    if ent.get('status') != 'open':
        return False
    props = ent['property'] if isinstance(ent['property'], list) else [ent['property']]
    if prop not in props:
        return False
    m = ent.get('match', {})
    if 'op' in m and not re.fullmatch(m['op'], meta.get('op', '')):
        return False
    tname = ('s' if meta.get('scalar') else '') + meta.get('type', '')
    if 'type' in m and not re.fullmatch(m['type'], tname):
        return False
    if 'kind' in m and not re.fullmatch(m['kind'], kind):
        return False
    if 'desc' in m and not re.search(m['desc'], desc or ''):
        return False
    macros = cfg.macros if hasattr(cfg, 'macros') else set(cfg)
    for r in m.get('requires', []):
        if r not in macros:
            return False
    for r in m.get('excludes', []):
        if r in macros:
            return False
    if 'K' in m and meta.get('K') not in m['K']:
        return False
    return True


def match(entries, prop, meta, cfg, kind, desc=''):
    for ent in entries:
        if entry_applies(ent, prop, meta, cfg, kind, desc):
            return ent
    return None


# ------------------------------------------------------------------------------------------------ regions
def lane_inputs(case, ob):
    i = ob.get('lane', 0) or 0
    out = []
    for inp in case.inputs:
        vs = inp['vars']
        out.append(vs[i] if inp['kind'] in 'vwxm' and len(vs) > i else vs[0])
    return out


def r_hi32_equal(case, ob):
    a, b = lane_inputs(case, ob)[:2]
    return z3.Extract(63, 32, a) == z3.Extract(63, 32, b)


def r_ldexp_outside_certified(case, ob):
    """complement of the region where the three-multiplication ldexp emulation is solver-certified exact:
    x normal, |e| <= 60, result normal"""
    x, e = lane_inputs(case, ob)[:2]
    w = x.size()
    sb, eb = fp.SB[w], fp.EB[w]
    ex = z3.ZeroExt(w - eb, z3.Extract(w - 2, sb - 1, x))
    normal = z3.And(ex != 0, ex != M(eb))
    small_e = z3.And(e >= -60, e <= 60)
    re = ex + e
    res_normal = z3.And(re >= 1, re <= M(eb) - 1)
    return z3.Not(z3.And(normal, small_e, res_normal))


def r_count_zero(case, ob):
    """stores / loads with an element count of zero"""
    for inp in case.inputs:
        if inp['kind'] == 'U':
            return inp['vars'][0] == 0
    return z3.BoolVal(True)


REGIONS = {
    'ldexp_outside_certified': r_ldexp_outside_certified,
    'count_zero': r_count_zero,
    'hi32_equal': r_hi32_equal,
}


def region_formula(ent, case, ob):
    name = ent.get('region')
    if not name:
        return None
    return REGIONS[name](case, ob)
