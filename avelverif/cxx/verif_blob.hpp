#ifndef AVEL_VERIF_BLOB_HPP
#define AVEL_VERIF_BLOB_HPP
struct avel_verif_blob64 { unsigned char b[64]; };
#endif
