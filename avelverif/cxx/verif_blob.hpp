#ifndef AVEL_VERIF_BLOB_HPP
#define AVEL_VERIF_BLOB_HPP
struct avel_verif_blob64 { unsigned char b[64]; };
struct avel_verif_blob65 { unsigned char b[65]; };
struct avel_verif_blob200 { unsigned char b[200]; };
#endif
