// Helper templates used by the generated wrappers (public AVEL API only).
#ifndef AVEL_VERIF_PRELUDE_HPP
#define AVEL_VERIF_PRELUDE_HPP
#include <avel/Avel.hpp>
#include <cstdint>
#include <type_traits>

#define VW extern "C" __attribute__((noinline))

namespace vf {
    template<class V, class W> V add_assign(V a, W b) { a += b; return a; }
    template<class V, class W> V sub_assign(V a, W b) { a -= b; return a; }
    template<class V, class W> V mul_assign(V a, W b) { a *= b; return a; }
    template<class V, class W> V div_assign(V a, W b) { a /= b; return a; }
    template<class V, class W> V rem_assign(V a, W b) { a %= b; return a; }
    template<class V, class W> V and_assign(V a, W b) { a &= b; return a; }
    template<class V, class W> V or_assign(V a, W b) { a |= b; return a; }
    template<class V, class W> V xor_assign(V a, W b) { a ^= b; return a; }
    template<class V, class W> V shl_assign(V a, W b) { a <<= b; return a; }
    template<class V, class W> V shr_assign(V a, W b) { a >>= b; return a; }
    template<class V, class W> V assign(V a, W b) { a = b; return a; }
    template<class V> V pre_inc(V a) { V r = ++a; return r; }
    template<class V> V post_inc_new(V a) { a++; return a; }
    template<class V> V post_inc_old(V a) { return a++; }
    template<class V> V pre_dec(V a) { V r = --a; return r; }
    template<class V> V post_dec_new(V a) { a--; return a; }
    template<class V> V post_dec_old(V a) { return a--; }

    template<class V>
    using index_vec = avel::Vector<typename std::make_signed<
        typename std::conditional<sizeof(typename V::scalar) == 4, std::int32_t, std::int64_t>::type>::type, V::width>;

    template<class V> V frexp_m(V a) { index_vec<V> e{}; return avel::frexp(a, &e); }
    template<class V> index_vec<V> frexp_e(V a) { index_vec<V> e{}; (void) avel::frexp(a, &e); return e; }
    inline float frexp_m_s(float a) { std::int32_t e = 0; return avel::frexp(a, &e); }
    inline double frexp_m_s(double a) { std::int64_t e = 0; return avel::frexp(a, &e); }
    inline std::int32_t frexp_e_s(float a) { std::int32_t e = 0; (void) avel::frexp(a, &e); return e; }
    inline std::int64_t frexp_e_s(double a) { std::int64_t e = 0; (void) avel::frexp(a, &e); return e; }
}
#endif
