#ifndef AVEL_VERIF_ALLOC_HPP
#define AVEL_VERIF_ALLOC_HPP
#include <avel/Aligned_allocator.hpp>
#include <memory>
struct avel_verif_b3 { unsigned char b[3]; };
struct avel_verif_b16 { unsigned char b[16]; };
struct avel_verif_b64 { unsigned char b[64]; };
extern "C" void avel_verif_havoc(void* p, std::size_t bytes);
#endif
