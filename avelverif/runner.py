"""Worker side: decide all obligations of one wrapper; parent side: a small process pool with hard per-task limits."""
import multiprocessing as mp
import os
import re
import resource
import time
import traceback

import z3

from . import llir, harness, solve, symex, ops, sym, sysconsts, configs, replay, known, memops, memreplay, fp

_MODS = {}


def get_mod(path):
    m = _MODS.get(path)
    if m is None:
        if len(_MODS) > 3:
            _MODS.clear()
        m = llir.parse_module(open(path).read())
        _MODS[path] = m
    return m


def swap_canon(f, case, i, j):
    """rename lane i <-> lane j in every vector/mask argument (a bijective renaming of free variables)"""
    pairs = []
    for inp in case.inputs:
        vs = inp['vars']
        if inp['kind'] in 'vwxm' and len(vs) > max(i, j):
            a, b = vs[i], vs[j]
            if not z3.is_expr(a) or not z3.is_expr(b):
                return None
            pairs.append((a, b))
            pairs.append((b, a))
    if not pairs:
        return None
    return z3.substitute(f, *pairs)


def assumptions_symmetric(case, i, j):
    if not case.assumptions:
        return True
    ids = set(sym.bz(a).get_id() for a in case.assumptions)
    for a in case.assumptions:
        s = swap_canon(sym.bz(a), case, i, j)
        if s is None or s.get_id() not in ids:
            return False
    return True


def decide_case(case, pf, budget):
    """-> summary dict with per-obligation outcomes; stops at the first sat obligation of each kind class"""
    out = {'obligations': 0, 'discharged': 0, 'trivial': 0, 'by_symmetry': 0, 'undecided': [], 'sat': [], 'nontrivial_ids': set()}
    groups = {}
    for ob in case.obligations:
        groups.setdefault(ob['group'], []).append(ob)
    reps = {}     # (group kind) -> list of (lane, formula) proven unsat by a solver
    unknown_by_kind = {}
    all_obs = [ob for ob in case.obligations
               if not (ob['formula'] is False or (not isinstance(ob['formula'], bool) and solve.is_trivially_false(ob['formula'])))]
    for gname, obs in groups.items():
        live = []
        for ob in obs:
            out['obligations'] += 1
            f = ob['formula']
            if f is False or (not isinstance(f, bool) and solve.is_trivially_false(f)):
                out['discharged'] += 1
                out['trivial'] += 1
                continue
            if f is True:
                f = z3.BoolVal(True)
                ob['formula'] = f
            live.append(ob)
        if not live:
            continue
        # one cheap attempt at the whole group
        if len(live) > 1:
            disj = z3.Or(*[sym.bz(ob['formula']) for ob in live])
            r, m, dt = solve.z3_check(case.assumptions, disj, budget['group_ms'])     # z3 only: this is just a shortcut
            pf.stats.calls['z3'] += 1
            pf.stats.time['z3'] += dt
            if r == 'unsat':
                pf.stats.decided_by['z3'] += len(live)
                out['discharged'] += len(live)
                for ob in live:
                    out['nontrivial_ids'].add(ob['formula'].get_id())
                continue
        gkind = gname.split(':', 1)[1]
        for ob in live:
            if unknown_by_kind.get(ob['kind'], 0) >= budget.get('max_unknown', 1000):
                # same code shape in every lane and path: do not burn the whole budget on obligations that will not be decided
                out['undecided'].append({'kind': ob['kind'], 'desc': ob['desc'], 'note': 'not attempted after %d undecided obligations of this class' % budget['max_unknown']})
                continue
            f = sym.bz(ob['formula'])
            out['nontrivial_ids'].add(f.get_id())
            lane = ob.get('lane')
            done = False
            if lane is not None:
                for (rl, rf) in reps.get((gkind, ob['kind']), []):
                    if rl == lane:
                        continue
                    c = swap_canon(f, case, lane, rl)
                    if c is not None and c.eq(rf) and assumptions_symmetric(case, lane, rl):
                        out['discharged'] += 1
                        out['by_symmetry'] += 1
                        done = True
                        break
            if done:
                continue
            r = 'unknown'
            ob0 = ob
            if ob.get('alt'):
                # two equivalent oracles (e.g. bvudiv and textbook long division): matching either discharges the obligation.
                # The primary one gets a short z3-only attempt (it is decided syntactically when the code really divides).
                if out.get('primary_hopeless'):
                    r, m, by = 'unknown', None, 'none'
                else:
                    r, m, dt = solve.z3_check(case.assumptions, f, budget.get('alt_first_ms', 2500))
                    pf.stats.calls['z3'] += 1
                    pf.stats.time['z3'] += dt
                    by = 'z3'
                    if r == 'unknown':
                        out['primary_hopeless'] = True       # same code shape for every lane and path of this wrapper
                if r == 'unknown':
                    # try the alternatives: first any that is closed syntactically, else continue with the first one
                    out['alt_oracle_used'] = out.get('alt_oracle_used', 0) + 1
                    chosen = None
                    for al in ob['alt']:
                        fa = sym.bz(al['formula'])
                        if solve.is_trivially_false(fa):
                            r, m, by = 'unsat', None, 'trivial'
                            break
                        ra, ma, dta = solve.z3_check(case.assumptions, fa, 1500) if len(ob['alt']) > 1 else ('unknown', None, 0)
                        pf.stats.time['z3'] += dta
                        if ra == 'unsat':
                            r, m, by = 'unsat', None, 'z3'
                            pf.stats.decided_by['z3'] += 1
                            break
                        if chosen is None:
                            chosen = al
                    if r == 'unknown' and chosen is not None:
                        ob = dict(ob, core=chosen['core'], formula=chosen['formula'])
                        f = sym.bz(ob['formula'])
                elif r == 'unsat':
                    pf.stats.decided_by['z3'] += 1
            if r == 'unknown' and ob.get('pc_list') and len(ob['pc_list']) > 2 and not isinstance(ob.get('core'), bool):
                # deep in a loop: first try the cheap proof by generalisation at the loop exit
                if generalised_unsat(case, ob, pf, budget):
                    r, m, by = 'unsat', None, 'generalisation'
                    out['by_generalisation'] = out.get('by_generalisation', 0) + 1
            if r == 'unknown' and ob.get('alt') and not out.get('uf_hopeless'):
                hit = False
                for cand in [sym.bz(ob0['formula'])] + [sym.bz(al['formula']) for al in ob0['alt']]:
                    try:
                        g, nd = uf_abstract_divisions(cand)
                    except Exception:
                        nd = 0
                    if nd < 2:
                        continue
                    ru, mu, dtu = solve.z3_check(case.assumptions, g, budget.get('z3_ms', 8000))
                    pf.stats.calls['z3'] += 1
                    pf.stats.time['z3'] += dtu
                    if ru == 'unsat':
                        r, m, by = 'unsat', None, 'uf-abstraction'
                        out['by_uf_abstraction'] = out.get('by_uf_abstraction', 0) + 1
                        hit = True
                        break
                if not hit:
                    out['uf_hopeless'] = True
            if r == 'unknown':
                r, m, by = pf.check(case.assumptions, f)
            if r == 'unsat':
                out['discharged'] += 1
                if lane is not None:
                    reps.setdefault((gkind, ob['kind']), []).append((lane, f))
            elif r == 'sat':
                out['sat'].append({'kind': ob['kind'], 'desc': ob['desc'], 'lane': lane, 'model': m, 'solver': by, 'ob': ob})
                # one counterexample per obligation kind is enough for this wrapper
                break
            else:
                # once per wrapper, over the disjunction of every live obligation of every path and lane: a defect that sits on another
                # path than the first undecided one (an early loop exit taken only when all lanes agree) is found here
                cm, cob = corner_probe(case, ob0, pf, all_obs=all_obs) if not out.get('corner_done') else (None, None)
                out['corner_done'] = True
                if cm is not None:
                    out['sat'].append({'kind': cob['kind'], 'desc': cob['desc'], 'lane': cob.get('lane'), 'model': cm, 'solver': 'z3-corner', 'ob': cob})
                    break
                note = None
                if ob0.get('slices') and not out.get('slices_hopeless'):
                    # full domain undecided: decide the stated bounded sub-domains (reported as bounded, never as discharged)
                    okn, cexm = 0, None
                    cover = bool(ob0.get('slices_cover'))
                    for sname, cons in ob0['slices']:
                        if cover:
                            # the slices partition the domain: give each the full portfolio
                            rs, ms, _by = pf.check(list(case.assumptions) + [sym.bz(cons)], sym.bz(ob0['formula']))
                        else:
                            rs, ms, dts = solve.z3_check(list(case.assumptions) + [sym.bz(cons)], sym.bz(ob0['formula']), budget.get('slice_ms', 6000))
                            pf.stats.calls['z3'] += 1
                            pf.stats.time['z3'] += dts
                        if rs == 'unsat':
                            okn += 1
                        elif rs == 'sat':
                            cexm = ms
                            break
                        elif cover:
                            break            # one undecided part already means the split proves nothing
                    if cexm is not None:
                        out['sat'].append({'kind': ob['kind'], 'desc': ob['desc'], 'lane': lane, 'model': cexm, 'solver': 'z3', 'ob': ob0})
                        break
                    if cover and okn == len(ob0['slices']):
                        out['discharged'] += 1
                        out['by_case_split'] = out.get('by_case_split', 0) + 1
                        if lane is not None:
                            reps.setdefault((gkind, ob['kind']), []).append((lane, f))
                        continue
                    out['bounded'] = out.get('bounded', 0) + okn
                    if okn == 0:
                        out['slices_hopeless'] = True
                    note = 'full domain undecided; %d of %d bounded sub-domains decided: %s' % (okn, len(ob0['slices']), '; '.join(n for n, _ in ob0['slices']))
                rec = {'kind': ob['kind'], 'desc': ob['desc']}
                if note:
                    rec['note'] = note
                out['undecided'].append(rec)
                unknown_by_kind[ob['kind']] = unknown_by_kind.get(ob['kind'], 0) + 1
    return out


def corner_patterns(w):
    m = (1 << w) - 1
    ps = [0, 1, m, 1 << (w - 1), m >> 1, 2, m - 1, 0x5555555555555555 & m, 0xAAAAAAAAAAAAAAAA & m]
    out = []
    for p in ps:
        if p not in out:
            out.append(p)
    return out


def corner_probe(case, ob, pf, max_combos=90, ms=400, all_obs=None):
    """Undecided obligation: a violation that needs one exact corner value (all-ones, MIN, ...) is a needle no CDCL search finds
    in a multiplier, while fixing the inputs to a corner makes the query trivial.  Every argument is set lane-uniformly to one
    of the corner patterns (all combinations, capped) and the solver completes the remaining variables (rounding mode, ...).
    A hit is a counterexample candidate like any other model (replayed natively before it is reported); no hit proves nothing."""
    import itertools
    obs = [ob] + [o for o in (all_obs or []) if o is not ob]
    fs = []
    for o in obs:
        fo = o['formula']
        fs.append(z3.BoolVal(True) if fo is True else sym.bz(fo))
    f = z3.Or(*fs) if len(fs) > 1 else fs[0]
    args = []
    for inp in getattr(case, 'inputs', []) or []:
        vs = [v for v in inp.get('vars', []) if not isinstance(v, (int, bool)) and z3.is_const(v) and v.decl().kind() == z3.Z3_OP_UNINTERPRETED]
        if not vs:
            continue
        if z3.is_bool(vs[0]):
            args.append((vs, [False, True]))
        elif z3.is_bv(vs[0]):
            args.append((vs, corner_patterns(vs[0].size())))
    if not args:
        return None, None
    n = 0
    for combo in itertools.product(*[range(len(pats)) for _, pats in args]):
        if n >= max_combos:
            break
        n += 1
        subs = []
        for (vs, pats), k in zip(args, combo):
            for v in vs:
                subs.append((v, z3.BoolVal(pats[k]) if z3.is_bool(v) else z3.BitVecVal(pats[k], v.size())))
        g = z3.simplify(z3.substitute(f, *subs))
        if z3.is_false(g):
            continue
        asm = [z3.simplify(z3.substitute(sym.bz(a), *subs)) for a in case.assumptions]
        if any(z3.is_false(a) for a in asm):
            continue
        r, m, dt = solve.z3_check(asm, g, ms)
        pf.stats.calls['z3'] += 1
        pf.stats.time['z3'] += dt
        if r == 'sat':
            # which obligation is it?  (the model of the disjunction is re-derived on the single obligation)
            for o, fo in zip(obs, fs):
                go = z3.simplify(z3.substitute(fo, *subs))
                if z3.is_false(go):
                    continue
                ro, mo, dto = solve.z3_check(asm, go, ms)
                pf.stats.time['z3'] += dto
                if ro == 'sat':
                    mo = dict(mo or {})
                    for v, val in subs:
                        mo[v.decl().name()] = (z3.is_true(val) if z3.is_bool(val) else val.as_long())
                    return mo, o
    return None, None


def dag_size(t, cache):
    i = t.get_id()
    if i in cache:
        return cache[i]
    seen = set()
    st = [t]
    while st:
        x = st.pop()
        xi = x.get_id()
        if xi in seen:
            continue
        seen.add(xi)
        st.extend(x.children())
    cache[i] = len(seen)
    return cache[i]


def generalised_unsat(case, ob, pf, budget):
    """Proof by generalisation (sound for unsat only): keep just the last path-condition conjunct (the loop exit test) and
    replace every large bit-vector subterm that the exit test shares with the assertion by a fresh variable.  If the
    generalised formula is unsat, so is the original (the original is an instance with a stronger path condition)."""
    # raw terms on purpose: z3's simplifier moves addends across equalities and would destroy the shared subterms
    last = sym.bz(ob['pc_list'][-1])
    core = sym.bz(ob['core'])
    ids = set()
    st = [last]
    while st:
        x = st.pop()
        xi = x.get_id()
        if xi in ids:
            continue
        ids.add(xi)
        st.extend(x.children())
    cache = {}
    cuts = {}
    seen = set()
    st = [core]
    while st:
        x = st.pop()
        xi = x.get_id()
        if xi in seen:
            continue
        seen.add(xi)
        if xi in ids and z3.is_bv(x) and not z3.is_bv_value(x) and x.num_args() > 0 and dag_size(x, cache) >= 24:
            cuts[xi] = x
            continue
        st.extend(x.children())
    if not cuts:
        return False
    pairs = [(t, z3.BitVec('cut!%d' % k, t.size())) for k, t in enumerate(cuts.values())]
    f = z3.substitute(z3.And(last, core), *pairs)
    r, m, dt = solve.z3_check(case.assumptions, f, budget.get('gen_ms', 4000))
    pf.stats.calls['z3'] += 1
    pf.stats.time['z3'] += dt
    return r == 'unsat'


DIV_KINDS = {}


def _div_kinds():
    if not DIV_KINDS:
        for nm in ('Z3_OP_BUDIV', 'Z3_OP_BUREM', 'Z3_OP_BSDIV', 'Z3_OP_BSREM', 'Z3_OP_BUDIV_I', 'Z3_OP_BUREM_I', 'Z3_OP_BSDIV_I', 'Z3_OP_BSREM_I'):
            k = getattr(z3, nm, None)
            if k is not None:
                DIV_KINDS[k] = nm[6:].replace('_I', '').lower()
    return DIV_KINDS


def uf_abstract_divisions(f):
    """replace every bit-vector division / remainder by an uninterpreted function of its operands (sound for unsat: whatever
    holds for every interpretation holds for the real divider).  Decides 'the code really divides' cases by congruence."""
    kinds = _div_kinds()
    memo = {}
    ufs = {}
    found = [0]

    def rec(t):
        i = t.get_id()
        if i in memo:
            return memo[i]
        ch = t.children()
        if not ch:
            memo[i] = t
            return t
        nch = [rec(c) for c in ch]
        k = t.decl().kind()
        if k in kinds:
            w = t.size()
            key = (kinds[k], w)
            if key not in ufs:
                ufs[key] = z3.Function('%s_%d' % key, z3.BitVecSort(w), z3.BitVecSort(w), z3.BitVecSort(w))
            r = ufs[key](nch[0], nch[1])
            found[0] += 1
        elif all(a.get_id() == b.get_id() for a, b in zip(ch, nch)):
            r = t
        else:
            r = t.decl()(*nch)
        memo[i] = r
        return r
    import sys
    old = sys.getrecursionlimit()
    sys.setrecursionlimit(max(old, 20000))
    try:
        g = rec(f)
    finally:
        sys.setrecursionlimit(old)
    return g, found[0]


def vacuity_ok(case, pf):
    f = case.vacuity
    if f is True:
        return True
    if f is False:
        return False
    r, m, dt = solve.z3_check(case.assumptions, f, 5000)
    return r != 'unsat'


def solve_wrapper(task):
    """task: dict(ll, meta, cfg, prop, budget, known) -> result dict (JSON-able)"""
    t0 = time.time()
    meta = task['meta']
    res = {'name': meta['name'], 'op': meta['op'], 'type': meta['type'], 'cfg': task['cfg'], 'status': 'ok', 'time': 0.0}
    try:
        ops.CTX.consts = sysconsts.load()
        fp.reset_tags()
        lemma0 = fp.LEMMA_USES[0]
        mod = get_mod(task['ll'])
        fn = mod.fns[meta['name']]
        res['ir_hash'] = task.get('ir_hash')
        case = memops.build_case(mod, meta, task['prop']) if meta.get('mem') else harness.build_case(mod, meta)
        res['paths'] = case.stats['paths']
        res['steps'] = case.stats['steps']
        res['intrinsics'] = case.stats['intrinsics']
        res['callees'] = case.stats['callees']
        res['lemma_exact_quotient'] = fp.LEMMA_USES[0] - lemma0
        b = task['budget']
        pf = solve.Portfolio(z3_ms=b['z3_ms'], fallback_s=b['fallback_s'], use_cvc5=b.get('cvc5', True), use_kissat=b.get('kissat', True), plain_cvc5=b.get('plain_cvc5', False))
        if not vacuity_ok(case, pf):
            res['status'] = 'vacuous'
            res['detail'] = 'assumptions and path conditions are unsatisfiable: the harness proves nothing'
            return res
        cfg = configs.BY_NAME[task['cfg']]
        kf_hits = []
        violations = []
        unconfirmed = []
        rounds = 0
        while True:
            rounds += 1
            d = decide_case(case, pf, b)
            if not d['sat'] or rounds > 6:
                break
            progressed = False
            for s in d['sat']:
                rp = do_replay(task, mod, fn, cfg, case, s, pf)
                rec = {'kind': s['kind'], 'desc': s['desc'], 'inputs': rp['inputs'], 'rm': rp['rm'], 'replay': rp['path'],
                       'confirmed': rp['confirmed'], 'detail': rp['detail'], 'solver': s['solver']}
                if not rp['confirmed']:
                    unconfirmed.append(rec)
                    # exclude this exact input so that other counterexamples can still surface
                    excl = exclusion(case, s['model'])
                    if excl is not None and rounds <= 3:
                        s['ob']['formula'] = z3.And(sym.bz(s['ob']['formula']), excl)
                        progressed = True
                    else:
                        s['ob']['formula'] = False
                        res.setdefault('dropped_after_unconfirmed', 0)
                        res['dropped_after_unconfirmed'] += 1
                        progressed = True
                    continue
                ent = known.match(task.get('known', []), task['prop'], meta, cfg, s['kind'], s.get('desc', ''))
                if ent is None:
                    violations.append(rec)
                    for ob in case.obligations:      # one reproduced violation per wrapper and class is enough
                        if ob['kind'] == s['kind']:
                            ob['formula'] = False
                    progressed = True
                    continue
                rec['known_id'] = ent['id']
                kf_hits.append(rec)
                region = known.region_formula(ent, case, s['ob'])
                if region is None:
                    # the entry covers the whole operation on this type/configuration
                    for ob in case.obligations:
                        if ob['kind'] == s['kind']:
                            ob['formula'] = False
                else:
                    for ob in case.obligations:
                        if ob['kind'] == s['kind'] and ob.get('lane') is not None:
                            rg = known.region_formula(ent, case, ob)
                            ob['formula'] = z3.And(sym.bz(ob['formula']), z3.Not(rg)) if ob['formula'] is not False else False
                progressed = True
            if not progressed:
                break
        res.update({'obligations': d['obligations'], 'discharged': d['discharged'], 'trivial': d['trivial'],
                    'by_symmetry': d['by_symmetry'], 'undecided': d['undecided'], 'nontrivial': len(d['nontrivial_ids']),
                    'known_hits': kf_hits, 'violations': violations, 'unconfirmed': unconfirmed,
                    'solver_time': pf.stats.time, 'solver_calls': pf.stats.calls, 'decided_by': pf.stats.decided_by})
        if violations:
            res['status'] = 'violation'
        elif d['undecided']:
            res['status'] = 'undecided'
        elif kf_hits:
            res['status'] = 'known'
    except symex.NotEncodable as e:
        res['status'] = 'not-encodable'
        res['detail'] = str(e)[:300]
    except llir.ParseError as e:
        res['status'] = 'not-encodable'
        res['detail'] = 'IR parse: ' + str(e)[:300]
    except MemoryError:
        res['status'] = 'undecided'
        res['detail'] = 'out of memory'
        res['undecided'] = [{'kind': 'all', 'desc': 'out of memory'}]
    except Exception as e:
        res['status'] = 'crash'
        res['detail'] = traceback.format_exc()[-1500:]
    res['time'] = time.time() - t0
    res['rss_mb'] = resource.getrusage(resource.RUSAGE_SELF).ru_maxrss // 1024
    return res


def do_replay(task, mod, fn, cfg, case, s, pf):
    meta = task['meta']
    if not meta.get('mem'):
        return replay.replay_cex(task['prop'], meta, cfg, [a[1] for a in fn.args], fn.ret, s['model'], s['kind'])
    model = s['model']
    mo = memops.BY_NAME[meta['op']]
    if mo.kind in ('gather', 'scatter'):
        # second stage: same obligation under replay-friendly index constraints (the claim itself stays unconstrained)
        case2 = memops.build_case(mod, meta, task['prop'], replayable=True)
        model2 = None
        for ob in case2.obligations:
            if ob['kind'] == s['kind'] and ob['desc'] == s['desc']:
                r, m, by = pf.check(case2.assumptions, ob['formula'])
                if r == 'sat':
                    model2 = m
                    break
        if model2 is None:
            return {'confirmed': False, 'detail': {'replay': 'no counterexample with natively mappable indices'}, 'path': '', 'inputs': [str({k: v for k, v in model.items() if not k.startswith('mem_')})], 'rm': 'RNE'}
        model = model2
    return memreplay.replay_cex(task['prop'], meta, cfg, [a[1] for a in fn.args], fn.ret, model, s['kind'])


def exclusion(case, model):
    cs = []
    for inp in case.inputs:
        for v in inp['vars']:
            if z3.is_expr(v) and v.decl().name() in model:
                val = model[v.decl().name()]
                if isinstance(val, bool):
                    cs.append(v if val else z3.Not(v))
                elif isinstance(val, int):
                    cs.append(v == val)
    if not cs:
        return None
    return z3.Not(z3.And(*cs))


# ------------------------------------------------------------------------------------------------ pool
def _worker(conn, fn_name, mem_gb):
    try:
        lim = int(mem_gb * (1 << 30))
        soft, hard = resource.getrlimit(resource.RLIMIT_AS)
        resource.setrlimit(resource.RLIMIT_AS, (lim, hard))
    except Exception:
        pass
    import importlib
    modname, fname = fn_name.rsplit('.', 1)
    fn = getattr(importlib.import_module(modname), fname)
    while True:
        try:
            msg = conn.recv()
        except EOFError:
            return
        if msg is None:
            return
        idx, task = msg
        try:
            f = fn
            if isinstance(task, dict) and task.get('handler'):
                hm, hf = task['handler'].rsplit('.', 1)
                f = getattr(importlib.import_module(hm), hf)
            r = f(task)
        except BaseException as e:
            r = {'name': task.get('meta', {}).get('name', '?'), 'status': 'crash', 'detail': repr(e)}
        conn.send((idx, r))


def run_pool(tasks, fn_name='avelverif.runner.solve_wrapper', nproc=None, hard_s=300, mem_gb=8, progress=None, max_tasks_per_worker=40):
    """run tasks with at most nproc workers; a task exceeding hard_s is killed and reported undecided"""
    nproc = nproc or min(16, os.cpu_count() or 4)
    ctx = mp.get_context('fork')
    results = [None] * len(tasks)
    pending = list(range(len(tasks)))[::-1]
    workers = []   # dict(proc, conn, idx, start, count)

    def spawn():
        pc, cc = ctx.Pipe()
        p = ctx.Process(target=_worker, args=(cc, fn_name, mem_gb), daemon=True)
        p.start()
        cc.close()
        return {'proc': p, 'conn': pc, 'idx': None, 'start': 0.0, 'count': 0}

    def assign(w):
        if not pending:
            return False
        i = pending.pop()
        w['idx'] = i
        w['start'] = time.time()
        w['count'] += 1
        w['conn'].send((i, tasks[i]))
        return True

    for _ in range(min(nproc, len(tasks))):
        w = spawn()
        workers.append(w)
        assign(w)
    done = 0
    while any(w['idx'] is not None for w in workers):
        conns = [w['conn'] for w in workers if w['idx'] is not None]
        ready = mp.connection.wait(conns, timeout=1.0)
        now = time.time()
        for w in list(workers):
            if w['idx'] is None:
                continue
            if w['conn'] in ready:
                try:
                    idx, r = w['conn'].recv()
                except (EOFError, OSError):
                    idx = w['idx']
                    t = tasks[idx]
                    r = {'name': t.get('meta', {}).get('name', '?'), 'op': t.get('meta', {}).get('op'), 'type': t.get('meta', {}).get('type'),
                         'cfg': t.get('cfg'), 'status': 'undecided', 'detail': 'worker died (memory limit?)',
                         'undecided': [{'kind': 'all', 'desc': 'worker died'}], 'time': now - w['start']}
                    try:
                        w['proc'].kill()
                    except Exception:
                        pass
                    workers.remove(w)
                    w = spawn()
                    workers.append(w)
                results[idx] = r
                done += 1
                if progress:
                    progress(done, len(tasks), r)
                w['idx'] = None
                if w['count'] >= max_tasks_per_worker and pending:
                    try:
                        w['conn'].send(None)
                    except Exception:
                        pass
                    workers.remove(w)
                    w = spawn()
                    workers.append(w)
                assign(w)
            elif now - w['start'] > hard_s:
                idx = w['idx']
                t = tasks[idx]
                try:
                    w['proc'].kill()
                except Exception:
                    pass
                results[idx] = {'name': t.get('meta', {}).get('name', '?'), 'op': t.get('meta', {}).get('op'), 'type': t.get('meta', {}).get('type'),
                                'cfg': t.get('cfg'), 'status': 'undecided', 'detail': 'hard time limit %ds' % hard_s,
                                'undecided': [{'kind': 'all', 'desc': 'hard time limit'}], 'time': now - w['start']}
                done += 1
                if progress:
                    progress(done, len(tasks), results[idx])
                workers.remove(w)
                w = spawn()
                workers.append(w)
                assign(w)
    for w in workers:
        try:
            w['conn'].send(None)
        except Exception:
            pass
    for w in workers:
        w['proc'].join(timeout=2)
        if w['proc'].is_alive():
            w['proc'].kill()
    return results
