"""Worker side: decide all obligations of one wrapper; parent side: a small process pool with hard per-task limits."""
import multiprocessing as mp
import os
import re
import resource
import time
import traceback

import z3

from . import llir, harness, solve, symex, ops, sym, sysconsts, configs, replay, known, memops, memreplay

_MODS = {}


def get_mod(path):
    m = _MODS.get(path)
    if m is None:
        if len(_MODS) > 3:
            _MODS.clear()
        m = llir.parse_module(open(path).read())
        _MODS[path] = m
    return m


def swap_canon(f, case, i, j):
    """rename lane i <-> lane j in every vector/mask argument (a bijective renaming of free variables)"""
    pairs = []
    for inp in case.inputs:
        vs = inp['vars']
        if inp['kind'] in 'vwxm' and len(vs) > max(i, j):
            a, b = vs[i], vs[j]
            if not z3.is_expr(a) or not z3.is_expr(b):
                return None
            pairs.append((a, b))
            pairs.append((b, a))
    if not pairs:
        return None
    return z3.substitute(f, *pairs)


def assumptions_symmetric(case, i, j):
    if not case.assumptions:
        return True
    ids = set(sym.bz(a).get_id() for a in case.assumptions)
    for a in case.assumptions:
        s = swap_canon(sym.bz(a), case, i, j)
        if s is None or s.get_id() not in ids:
            return False
    return True


def decide_case(case, pf, budget):
    """-> summary dict with per-obligation outcomes; stops at the first sat obligation of each kind class"""
    out = {'obligations': 0, 'discharged': 0, 'trivial': 0, 'by_symmetry': 0, 'undecided': [], 'sat': [], 'nontrivial_ids': set()}
    groups = {}
    for ob in case.obligations:
        groups.setdefault(ob['group'], []).append(ob)
    reps = {}     # (group kind) -> list of (lane, formula) proven unsat by a solver
    for gname, obs in groups.items():
        live = []
        for ob in obs:
            out['obligations'] += 1
            f = ob['formula']
            if f is False or (not isinstance(f, bool) and solve.is_trivially_false(f)):
                out['discharged'] += 1
                out['trivial'] += 1
                continue
            if f is True:
                f = z3.BoolVal(True)
                ob['formula'] = f
            live.append(ob)
        if not live:
            continue
        # one cheap attempt at the whole group
        if len(live) > 1:
            disj = z3.Or(*[sym.bz(ob['formula']) for ob in live])
            r, m, by = pf.check(case.assumptions, disj, z3_ms=budget['group_ms'])
            if r == 'unsat':
                out['discharged'] += len(live)
                for ob in live:
                    out['nontrivial_ids'].add(ob['formula'].get_id())
                continue
        gkind = gname.split(':', 1)[1]
        for ob in live:
            f = sym.bz(ob['formula'])
            out['nontrivial_ids'].add(f.get_id())
            lane = ob.get('lane')
            done = False
            if lane is not None:
                for (rl, rf) in reps.get((gkind, ob['kind']), []):
                    if rl == lane:
                        continue
                    c = swap_canon(f, case, lane, rl)
                    if c is not None and c.eq(rf) and assumptions_symmetric(case, lane, rl):
                        out['discharged'] += 1
                        out['by_symmetry'] += 1
                        done = True
                        break
            if done:
                continue
            r, m, by = pf.check(case.assumptions, f)
            if r == 'unsat':
                out['discharged'] += 1
                if lane is not None:
                    reps.setdefault((gkind, ob['kind']), []).append((lane, f))
            elif r == 'sat':
                out['sat'].append({'kind': ob['kind'], 'desc': ob['desc'], 'lane': lane, 'model': m, 'solver': by, 'ob': ob})
                # one counterexample per obligation kind is enough for this wrapper
                break
            else:
                out['undecided'].append({'kind': ob['kind'], 'desc': ob['desc']})
    return out


def vacuity_ok(case, pf):
    f = case.vacuity
    if f is True:
        return True
    if f is False:
        return False
    r, m, dt = solve.z3_check(case.assumptions, f, 5000)
    return r != 'unsat'


def solve_wrapper(task):
    """task: dict(ll, meta, cfg, prop, budget, known) -> result dict (JSON-able)"""
    t0 = time.time()
    meta = task['meta']
    res = {'name': meta['name'], 'op': meta['op'], 'type': meta['type'], 'cfg': task['cfg'], 'status': 'ok', 'time': 0.0}
    try:
        ops.CTX.consts = sysconsts.load()
        mod = get_mod(task['ll'])
        fn = mod.fns[meta['name']]
        res['ir_hash'] = task.get('ir_hash')
        case = memops.build_case(mod, meta, task['prop']) if meta.get('mem') else harness.build_case(mod, meta)
        res['paths'] = case.stats['paths']
        res['steps'] = case.stats['steps']
        res['intrinsics'] = case.stats['intrinsics']
        res['callees'] = case.stats['callees']
        b = task['budget']
        pf = solve.Portfolio(z3_ms=b['z3_ms'], fallback_s=b['fallback_s'], use_cvc5=b.get('cvc5', True), use_kissat=b.get('kissat', True), plain_cvc5=b.get('plain_cvc5', False))
        if not vacuity_ok(case, pf):
            res['status'] = 'vacuous'
            res['detail'] = 'assumptions and path conditions are unsatisfiable: the harness proves nothing'
            return res
        cfg = configs.BY_NAME[task['cfg']]
        kf_hits = []
        violations = []
        unconfirmed = []
        rounds = 0
        while True:
            rounds += 1
            d = decide_case(case, pf, b)
            if not d['sat'] or rounds > 6:
                break
            progressed = False
            for s in d['sat']:
                rp = do_replay(task, mod, fn, cfg, case, s, pf)
                rec = {'kind': s['kind'], 'desc': s['desc'], 'inputs': rp['inputs'], 'rm': rp['rm'], 'replay': rp['path'],
                       'confirmed': rp['confirmed'], 'detail': rp['detail'], 'solver': s['solver']}
                if not rp['confirmed']:
                    unconfirmed.append(rec)
                    # exclude this exact input so that other counterexamples can still surface
                    excl = exclusion(case, s['model'])
                    if excl is not None and rounds <= 3:
                        s['ob']['formula'] = z3.And(sym.bz(s['ob']['formula']), excl)
                        progressed = True
                    else:
                        s['ob']['formula'] = False
                        res.setdefault('dropped_after_unconfirmed', 0)
                        res['dropped_after_unconfirmed'] += 1
                        progressed = True
                    continue
                ent = known.match(task.get('known', []), task['prop'], meta, cfg, s['kind'])
                if ent is None:
                    violations.append(rec)
                    for ob in case.obligations:      # one reproduced violation per wrapper and class is enough
                        if ob['kind'] == s['kind']:
                            ob['formula'] = False
                    progressed = True
                    continue
                rec['known_id'] = ent['id']
                kf_hits.append(rec)
                region = known.region_formula(ent, case, s['ob'])
                if region is None:
                    # the entry covers the whole operation on this type/configuration
                    for ob in case.obligations:
                        if ob['kind'] == s['kind']:
                            ob['formula'] = False
                else:
                    for ob in case.obligations:
                        if ob['kind'] == s['kind'] and ob.get('lane') is not None:
                            rg = known.region_formula(ent, case, ob)
                            ob['formula'] = z3.And(sym.bz(ob['formula']), z3.Not(rg)) if ob['formula'] is not False else False
                progressed = True
            if not progressed:
                break
        res.update({'obligations': d['obligations'], 'discharged': d['discharged'], 'trivial': d['trivial'],
                    'by_symmetry': d['by_symmetry'], 'undecided': d['undecided'], 'nontrivial': len(d['nontrivial_ids']),
                    'known_hits': kf_hits, 'violations': violations, 'unconfirmed': unconfirmed,
                    'solver_time': pf.stats.time, 'solver_calls': pf.stats.calls, 'decided_by': pf.stats.decided_by})
        if violations:
            res['status'] = 'violation'
        elif d['undecided']:
            res['status'] = 'undecided'
        elif kf_hits:
            res['status'] = 'known'
    except symex.NotEncodable as e:
        res['status'] = 'not-encodable'
        res['detail'] = str(e)[:300]
    except llir.ParseError as e:
        res['status'] = 'not-encodable'
        res['detail'] = 'IR parse: ' + str(e)[:300]
    except MemoryError:
        res['status'] = 'undecided'
        res['detail'] = 'out of memory'
        res['undecided'] = [{'kind': 'all', 'desc': 'out of memory'}]
    except Exception as e:
        res['status'] = 'crash'
        res['detail'] = traceback.format_exc()[-1500:]
    res['time'] = time.time() - t0
    res['rss_mb'] = resource.getrusage(resource.RUSAGE_SELF).ru_maxrss // 1024
    return res


def do_replay(task, mod, fn, cfg, case, s, pf):
    meta = task['meta']
    if not meta.get('mem'):
        return replay.replay_cex(task['prop'], meta, cfg, [a[1] for a in fn.args], fn.ret, s['model'], s['kind'])
    model = s['model']
    mo = memops.BY_NAME[meta['op']]
    if mo.kind in ('gather', 'scatter'):
        # second stage: same obligation under replay-friendly index constraints (the claim itself stays unconstrained)
        case2 = memops.build_case(mod, meta, task['prop'], replayable=True)
        model2 = None
        for ob in case2.obligations:
            if ob['kind'] == s['kind'] and ob['desc'] == s['desc']:
                r, m, by = pf.check(case2.assumptions, ob['formula'])
                if r == 'sat':
                    model2 = m
                    break
        if model2 is None:
            return {'confirmed': False, 'detail': {'replay': 'no counterexample with natively mappable indices'}, 'path': '', 'inputs': [str({k: v for k, v in model.items() if not k.startswith('mem_')})], 'rm': 'RNE'}
        model = model2
    return memreplay.replay_cex(task['prop'], meta, cfg, [a[1] for a in fn.args], fn.ret, model, s['kind'])


def exclusion(case, model):
    cs = []
    for inp in case.inputs:
        for v in inp['vars']:
            if z3.is_expr(v) and v.decl().name() in model:
                val = model[v.decl().name()]
                if isinstance(val, bool):
                    cs.append(v if val else z3.Not(v))
                elif isinstance(val, int):
                    cs.append(v == val)
    if not cs:
        return None
    return z3.Not(z3.And(*cs))


# ------------------------------------------------------------------------------------------------ pool
def _worker(conn, fn_name, mem_gb):
    try:
        lim = int(mem_gb * (1 << 30))
        soft, hard = resource.getrlimit(resource.RLIMIT_AS)
        resource.setrlimit(resource.RLIMIT_AS, (lim, hard))
    except Exception:
        pass
    import importlib
    modname, fname = fn_name.rsplit('.', 1)
    fn = getattr(importlib.import_module(modname), fname)
    while True:
        try:
            msg = conn.recv()
        except EOFError:
            return
        if msg is None:
            return
        idx, task = msg
        try:
            r = fn(task)
        except BaseException as e:
            r = {'name': task.get('meta', {}).get('name', '?'), 'status': 'crash', 'detail': repr(e)}
        conn.send((idx, r))


def run_pool(tasks, fn_name='avelverif.runner.solve_wrapper', nproc=None, hard_s=300, mem_gb=8, progress=None, max_tasks_per_worker=40):
    """run tasks with at most nproc workers; a task exceeding hard_s is killed and reported undecided"""
    nproc = nproc or min(16, os.cpu_count() or 4)
    ctx = mp.get_context('fork')
    results = [None] * len(tasks)
    pending = list(range(len(tasks)))[::-1]
    workers = []   # dict(proc, conn, idx, start, count)

    def spawn():
        pc, cc = ctx.Pipe()
        p = ctx.Process(target=_worker, args=(cc, fn_name, mem_gb), daemon=True)
        p.start()
        cc.close()
        return {'proc': p, 'conn': pc, 'idx': None, 'start': 0.0, 'count': 0}

    def assign(w):
        if not pending:
            return False
        i = pending.pop()
        w['idx'] = i
        w['start'] = time.time()
        w['count'] += 1
        w['conn'].send((i, tasks[i]))
        return True

    for _ in range(min(nproc, len(tasks))):
        w = spawn()
        workers.append(w)
        assign(w)
    done = 0
    while any(w['idx'] is not None for w in workers):
        conns = [w['conn'] for w in workers if w['idx'] is not None]
        ready = mp.connection.wait(conns, timeout=1.0)
        now = time.time()
        for w in list(workers):
            if w['idx'] is None:
                continue
            if w['conn'] in ready:
                try:
                    idx, r = w['conn'].recv()
                except (EOFError, OSError):
                    idx = w['idx']
                    t = tasks[idx]
                    r = {'name': t.get('meta', {}).get('name', '?'), 'op': t.get('meta', {}).get('op'), 'type': t.get('meta', {}).get('type'),
                         'cfg': t.get('cfg'), 'status': 'undecided', 'detail': 'worker died (memory limit?)',
                         'undecided': [{'kind': 'all', 'desc': 'worker died'}], 'time': now - w['start']}
                    try:
                        w['proc'].kill()
                    except Exception:
                        pass
                    workers.remove(w)
                    w = spawn()
                    workers.append(w)
                results[idx] = r
                done += 1
                if progress:
                    progress(done, len(tasks), r)
                w['idx'] = None
                if w['count'] >= max_tasks_per_worker and pending:
                    try:
                        w['conn'].send(None)
                    except Exception:
                        pass
                    workers.remove(w)
                    w = spawn()
                    workers.append(w)
                assign(w)
            elif now - w['start'] > hard_s:
                idx = w['idx']
                t = tasks[idx]
                try:
                    w['proc'].kill()
                except Exception:
                    pass
                results[idx] = {'name': t.get('meta', {}).get('name', '?'), 'op': t.get('meta', {}).get('op'), 'type': t.get('meta', {}).get('type'),
                                'cfg': t.get('cfg'), 'status': 'undecided', 'detail': 'hard time limit %ds' % hard_s,
                                'undecided': [{'kind': 'all', 'desc': 'hard time limit'}], 'time': now - w['start']}
                done += 1
                if progress:
                    progress(done, len(tasks), results[idx])
                workers.remove(w)
                w = spawn()
                workers.append(w)
                assign(w)
    for w in workers:
        try:
            w['conn'].send(None)
        except Exception:
            pass
    for w in workers:
        w['proc'].join(timeout=2)
        if w['proc'].is_alive():
            w['proc'].kill()
    return results
