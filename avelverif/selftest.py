"""Set-up self test: the pipeline must prove a true fact and refute a false one (guards against a silently broken
tool chain: missing clang, z3, cvc5, kissat)."""
import shutil
import sys

import z3
from . import build, configs, gen, llir, harness, solve, ops, sysconsts


def main():
    for tool in ('clang++-14', 'g++', 'cvc5', 'kissat'):
        if not shutil.which(tool):
            print('selftest: missing tool', tool)
            return 1
    ops.CTX.consts = sysconsts.load()
    cfg = configs.BY_NAME['sse2']
    ws = [w for w in gen.wrappers_for(cfg, ['C01'], 'quick') if w['name'] in ('w_vec4x32u__add', 'w_vec2x64u__mul')]
    text, ok, dropped, cmd, ll = build.compile_ir(cfg, ws, 'selftest', keep=False)
    mod = llir.parse_module(text)
    pf = solve.Portfolio(z3_ms=3000, fallback_s=20)
    for w in ok:
        case = harness.build_case(mod, w)
        for ob in case.obligations:
            r, m, by = pf.check(case.assumptions, ob['formula'])
            if r != 'unsat':
                print('selftest: expected unsat for', w['name'], ob['desc'], 'got', r)
                return 1
        if w['name'] == 'w_vec4x32u__add':
            # a deliberately wrong expectation must be refuted with a model
            a = case.inputs[0]['vars'][0]
            b = case.inputs[1]['vars'][0]
            got = [o for o in case.obligations if o['kind'] == 'result' and o.get('lane') == 0][0]['got']
            r, m, by = pf.check(case.assumptions, got != a - b)
            if r != 'sat':
                print('selftest: wrong oracle not refuted')
                return 1
    print('selftest ok (decided by %s)' % pf.stats.decided_by)
    return 0


if __name__ == '__main__':
    sys.exit(main())
