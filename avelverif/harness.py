"""Harness for the register-to-register wrappers: symbolic inputs -> IR values -> execute -> obligations.

An obligation is a z3 formula describing a *violation* (path condition and lane precondition included); it is
discharged when assumptions /\ formula is unsat."""
import z3
from . import sym, fp, ops, llir, symex, intrin
from .avtypes import VT, BY_NAME
from .sym import M, b_and, b_or, b_not


class Case:
    def __init__(self):
        self.obligations = []     # dicts: kind, formula, desc, group
        self.assumptions = []
        self.inputs = []          # per argument: dict(kind, vars, bytes_fn)
        self.stats = {}
        self.vacuity = None       # formula that must be satisfiable
        self.notes = []


def type_of(meta):
    T = BY_NAME.get(meta['type'])
    if T is None or meta.get('scalar'):
        n, rest = meta['type'][3:].split('x')
        T = VT(1 if meta.get('scalar') else int(n), int(rest[:-1]), rest[-1])
    return T


def signed_of(T):
    return VT(T.n, T.bits, 'i')


def pack_lanes(lanes, w, ty):
    """element lanes (w bits each) -> IR value of type ty"""
    iw = ty.lbits()
    n = ty.lanes()
    if len(lanes) * w != iw * n:
        raise symex.NotEncodable('argument layout: %d x %d bits into %r' % (len(lanes), w, ty))
    return [(v, False) for v in sym.regroup(lanes, w, iw)]


def pack_mask(bools, w, ty):
    if ty.kind == 'vec' and ty.lbits() > 1:
        lanes = [sym.ite(b, M(w), 0, w) for b in bools]
        return pack_lanes(lanes, w, ty)
    if ty.kind == 'vec':
        return [(sym.b2bv(b), False) for b in bools] + [(0, False)] * (ty.n - len(bools))
    k = ty.bits
    if k < len(bools):
        raise symex.NotEncodable('mask layout')
    v, _ = sym.concat([(sym.b2bv(b), 1) for b in bools] + ([(0, k - len(bools))] if k > len(bools) else []))
    return [(v, False)]


def unpack_lanes(val, ty, w, n):
    iw = ty.lbits()
    if ty.lanes() * iw != n * w:
        raise symex.NotEncodable('result layout: %r as %d x %d' % (ty, n, w))
    vs = sym.regroup([v for v, _ in val], iw, w)
    ps = [p for _, p in val]
    k1, k2 = len(val), len(vs)
    if k2 >= k1:
        pp = [ps[i * k1 // k2] for i in range(k2)]
    else:
        r = k1 // k2
        pp = [b_or(*ps[i * r:(i + 1) * r]) for i in range(k2)]
    return vs, pp


def mismatch(cmp, T, got, exp, w):
    """-> bool/z3: got is NOT an acceptable result"""
    if cmp == 'bits':
        return sym.ne(got, exp, w)
    if cmp == 'fp_arith':
        both_nan = b_and(fp.is_nan_bits(got, w), fp.is_nan_bits(exp, w))
        return b_not(b_or(both_nan, sym.eq(got, exp, w)))
    if cmp == 'fp_num':
        gn, en = fp.is_nan_bits(got, w), fp.is_nan_bits(exp, w)
        return b_not(b_or(b_and(gn, en), b_and(b_not(gn), b_not(en), fp.fcmp('oeq', got, exp, w))))
    if cmp == 'oneof':
        return b_and(*[sym.ne(got, e, w) for e in exp])
    if cmp == 'oneof_nan':
        gn = fp.is_nan_bits(got, w)
        return b_and(*[b_not(b_or(b_and(gn, fp.is_nan_bits(e, w)), sym.eq(got, e, w))) for e in exp])
    raise Exception(cmp)


def make_rm(sym_rm, name='rm'):
    if sym_rm is None or isinstance(sym_rm, str) and sym_rm != 'sym':
        return {None: fp.RNE, 'RNE': fp.RNE, 'RTP': fp.RTP, 'RTN': fp.RTN, 'RTZ': fp.RTZ}[sym_rm], []
    rm = z3.Const(name, fp.RNE.sort())
    return rm, [rm != fp.RNA]


def init_state(ex, rm):
    st = symex.State()
    st.rm = rm
    mx = z3.BitVec('mxcsr0', 32)
    st.mxcsr = mx
    st.extra['mxcsr0'] = mx
    rc = fp.rc_from_rm(rm)
    asm = [z3.Extract(14, 13, mx) == rc, z3.Extract(31, 16, mx) == 0, z3.Extract(15, 15, mx) == 0, z3.Extract(6, 6, mx) == 0]
    return st, asm


def uses_fp(fn):
    for blk in fn.blocks.values():
        for ins in blk:
            if ins.op in ('fadd', 'fsub', 'fmul', 'fdiv', 'frem', 'fptrunc', 'sitofp', 'uitofp', 'call'):
                return True
    return False


def build_case(mod, meta, symbolic=True, concrete_inputs=None, rm_mode='sym'):
    """meta: wrapper record from gen.  symbolic=False with concrete_inputs (list per arg of lane ints / bools) runs the
    interpreter as a concrete evaluator (translator validation)."""
    o = ops.BY_NAME[meta['op']]
    T = type_of(meta)
    S = signed_of(T)
    fn = mod.fns[meta['name']]
    case = Case()
    needs_rm = T.kind == 'f' or uses_fp(fn)
    if rm_mode == 'sym' and o.rm != 'sym':
        rm_mode = o.rm
    if symbolic and rm_mode == 'sym' and needs_rm:
        rm, rm_asm = make_rm('sym')
    else:
        rm, rm_asm = make_rm(rm_mode if rm_mode != 'sym' else None)
    case.rm = rm
    ops.CTX.rm = rm
    ex = symex.Executor(mod, intrin.Intrinsics(), assumptions=[])
    st, mx_asm = init_state(ex, rm)
    case.assumptions += rm_asm + mx_asm
    args_ir = []
    args_or = []
    for i, kind in enumerate(o.args):
        aty = fn.args[i][1]
        ci = concrete_inputs[i] if concrete_inputs is not None else None
        if kind in 'vwx':
            AT = T if kind == 'v' else S
            lanes = list(ci) if ci is not None else [z3.BitVec('a%d_%d' % (i, j), AT.bits) for j in range(AT.n)]
            args_ir.append(pack_lanes(lanes, AT.bits, aty))
            args_or.append(lanes)
            case.inputs.append({'kind': kind, 'vars': lanes, 'w': AT.bits, 'ir': aty})
        elif kind == 'm':
            bs = list(ci) if ci is not None else [z3.Bool('m%d_%d' % (i, j)) for j in range(T.n)]
            args_ir.append(pack_mask(bs, T.bits, aty))
            args_or.append(bs)
            case.inputs.append({'kind': 'm', 'vars': bs, 'w': T.bits, 'ir': aty})
        elif kind in 'sLU':
            w = {'s': T.bits, 'L': 64, 'U': 32}[kind]
            v = ci if ci is not None else z3.BitVec('s%d' % i, w)
            args_ir.append([(v, False)])
            args_or.append(v)
            case.inputs.append({'kind': kind, 'vars': [v], 'w': w, 'ir': aty})
        elif kind == 'b':
            b = ci if ci is not None else z3.Bool('b%d' % i)
            args_ir.append([(sym.b2bv(b), False)])
            args_or.append(b)
            case.inputs.append({'kind': 'b', 'vars': [b], 'w': 1, 'ir': aty})
        else:
            raise Exception(kind)
    ex.assumptions = case.assumptions      # feasibility checks see the same assumptions (shared list)
    kw = {}
    if meta.get('K') is not None:
        kw['K'] = meta['K']
    if o.pre:
        case.assumptions += [sym.bz(c) for c in o.pre(T, *args_or) if c is not True]
    finals = ex.run(meta['name'], args_ir, st)
    case.stats = {'paths': len(finals), 'steps': ex.total_steps, 'intrinsics': sorted(ex.intrinsics_used),
                  'callees': sorted(ex.called), 'feasibility_queries': ex.feas_queries}
    exp = o.oracle(T, *args_or, **kw)
    exp_alts = [orc(T, *args_or, **kw) for pred, orc in (o.alt or []) if symbolic and pred(T)]
    rty = fn.ret
    pcs = []
    for fi, f in enumerate(finals):
        pc = b_and(*f.pc)
        pcs.append(pc)
        tag = 'path%d' % fi
        # UB obligations recorded during execution
        for cat, bad, info, pcsnap in f.obls:
            dom = True
            if o.lane_pre and T.n > 1 and cat == 'ub:signed-division-overflow':
                continue      # C05 only speaks about zero divisors in other lanes; MIN / -1 in another lane is outside the statement
            if o.lane_pre and T.n == 1 and cat in ('ub:division-by-zero', 'ub:signed-division-overflow'):
                dom = o.lane_pre(T, 0, *args_or)      # a width-1 division outside the documented domain is not claimed
            case.obligations.append({'kind': cat, 'formula': b_and(b_and(*pcsnap), bad, dom), 'desc': info, 'group': tag + ':ub'})
        # MXCSR unchanged
        if f.mxcsr is not st.extra['mxcsr0']:
            ctl = 0xFFC0
            case.obligations.append({'kind': 'fpenv:mxcsr-changed', 'group': tag + ':fpenv', 'desc': 'MXCSR control bits differ at return',
                                     'formula': b_and(pc, sym.ne(sym.and_(f.mxcsr, ctl, 32), sym.and_(st.extra['mxcsr0'], ctl, 32), 32))})
        if f.ret is None:
            continue
        obs = result_obligations(o, T, meta, rty, f.ret, exp, args_or, True, tag)
        altobs = [result_obligations(o, T, meta, rty, f.ret, e, args_or, True, tag) for e in exp_alts]
        for k, ob in enumerate(obs):
            ob['core'] = ob['formula']
            ob['pc_list'] = list(f.pc)
            ob['formula'] = b_and(pc, ob['core'])
            if o.slices and ob['kind'] == 'result' and ob.get('lane') is not None:
                ob['slices'] = o.slices(T, ob['lane'], *args_or)
                ob['slices_cover'] = bool(getattr(o, 'slices_cover', False))
            if altobs and ob['kind'] == 'result':
                ob['alt'] = [{'core': al[k]['formula'], 'formula': b_and(pc, al[k]['formula']), 'exp': al[k].get('exp')} for al in altobs]
            case.obligations.append(ob)
    case.vacuity = b_or(*pcs) if pcs else False
    case.ret_type = rty
    case.finals = finals
    return case


class _RetView:
    """an Op seen with a normalised result kind"""

    def __init__(self, o, kind):
        self._o = o
        self.ret = kind

    def __getattr__(self, k):
        return getattr(self._o, k)


def result_obligations(o, T, meta, rty, ret, exp, args_or, pc, tag):
    """obligations comparing the returned IR value with the oracle's expectation (works on concrete values too)"""
    S = signed_of(T)
    RT = {'v': T, 'w': S, 'x': S, 's': T}.get(o.ret)
    out = []
    kind = o.ret
    if kind.startswith('V:'):
        RT = BY_NAME[kind[2:]]
        kind = 'v'
    elif kind.startswith('M:'):
        T = BY_NAME[kind[2:]]
        kind = 'm'
    o = _RetView(o, kind)
    if o.ret in 'vwxs':
        n = 1 if o.ret == 's' else RT.n
        got, pp = unpack_lanes(ret, rty, RT.bits, n)
        explist = exp if isinstance(exp, list) and o.ret != 's' else [exp]
        for i in range(n):
            lp = o.lane_pre(T, i, *args_or) if o.lane_pre else True
            out.append({'kind': 'result', 'group': tag + ':result', 'lane': i,
                        'formula': b_and(pc, lp, b_not(pp[i]), mismatch(o.cmp, RT, got[i], explist[i], RT.bits)),
                        'desc': 'lane %d of %s' % (i, meta['name']), 'got': got[i], 'exp': explist[i]})
            out.append({'kind': 'ub:poison-returned', 'group': tag + ':ub', 'lane': i,
                        'formula': b_and(pc, lp, pp[i]), 'desc': 'lane %d is poison' % i})
    elif o.ret == 'm':
        bools = exp
        if rty.kind == 'vec' and rty.lbits() > 1:
            got, pp = unpack_lanes(ret, rty, T.bits, T.n)
            for i in range(T.n):
                lp = o.lane_pre(T, i, *args_or) if o.lane_pre else True
                e = sym.ite(bools[i], M(T.bits), 0, T.bits)
                out.append({'kind': 'result', 'group': tag + ':result', 'lane': i,
                            'formula': b_and(pc, lp, b_not(pp[i]), sym.ne(got[i], e, T.bits)),
                            'desc': 'mask lane %d of %s' % (i, meta['name']), 'got': got[i], 'exp': e})
                out.append({'kind': 'ub:poison-returned', 'group': tag + ':ub', 'lane': i,
                            'formula': b_and(pc, lp, pp[i]), 'desc': 'mask lane %d is poison' % i})
        else:
            if rty.kind == 'vec':
                v, _ = sym.concat([(x, 1) for x, _ in ret])
                p = b_or(*[q for _, q in ret])
                k = rty.n
            else:
                v, p = ret[0]
                k = rty.bits
            for i in range(k):
                bit = sym.truth(sym.extract(v, i, i, k))
                e = bools[i] if i < T.n else False
                lp = (o.lane_pre(T, i, *args_or) if o.lane_pre else True) if i < T.n else True
                out.append({'kind': 'result', 'group': tag + ':result', 'lane': i,
                            'formula': b_and(pc, lp, b_not(p), b_not(sym.b_ite(bit, e, b_not(e)))),
                            'desc': 'mask bit %d of %s%s' % (i, meta['name'], '' if i < T.n else ' (unused high bit must stay clear)'),
                            'got': bit, 'exp': e})
            out.append({'kind': 'ub:poison-returned', 'group': tag + ':ub', 'formula': b_and(pc, p), 'desc': 'mask is poison'})
    elif o.ret in 'bU':
        v, p = ret[0]
        if o.ret == 'b':
            got = sym.truth(sym.extract(v, 0, 0, rty.bits)) if rty.bits > 1 else sym.truth(v)
            bad = b_not(sym.b_ite(got, exp, b_not(exp)))
            if rty.bits > 1:
                bad = b_or(bad, sym.ne(sym.lshr(v, 1, rty.bits), 0, rty.bits))
        else:
            got = v
            bad = sym.ne(v, exp, 32)
        out.append({'kind': 'result', 'group': tag + ':result', 'lane': 0, 'formula': b_and(pc, b_not(p), bad),
                    'desc': 'result of %s' % meta['name'], 'got': got, 'exp': exp})
        out.append({'kind': 'ub:poison-returned', 'group': tag + ':ub', 'formula': b_and(pc, p), 'desc': 'result is poison'})
    return out
