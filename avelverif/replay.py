"""Native replay of solver counterexamples: the wrapper itself is compiled against the real headers with clang++ and
g++ and run on this CPU; the observed result is compared with the oracle evaluated concretely.  Only counterexamples
that reproduce are ever reported as violations."""
import hashlib
import json
import os
import re
import subprocess
import sys

from . import build, harness, ops, sym, fp, llir, configs, sysconsts
from .sym import M

ROOT = os.path.dirname(build.HERE)
REPLAYS = os.environ.get('AVEL_VERIF_REPLAYS', os.path.join(ROOT, 'replays'))

RM_FE = {'RNE': 'FE_TONEAREST', 'RTP': 'FE_UPWARD', 'RTN': 'FE_DOWNWARD', 'RTZ': 'FE_TOWARDZERO'}


def ir_bytes(val, ty):
    """concrete IR value (list of (int, False)) -> little-endian bytes as laid out in a register/ABI slot"""
    if ty.kind == 'int' and ty.bits == 1:
        return [val[0][0] & 1]
    w = ty.lbits()
    out = []
    for v, _ in val:
        for k in range((w + 7) // 8):
            out.append((v >> (8 * k)) & 255)
    return out


def bytes_ir(bs, ty):
    if ty.kind == 'int' and ty.bits == 1:
        return [(bs[0] & 1, False)]
    w = ty.lbits()
    nb = (w + 7) // 8
    out = []
    for i in range(ty.lanes()):
        v = 0
        for k in range(nb):
            v |= bs[i * nb + k] << (8 * k)
        out.append((v & M(w), False))
    return out


def concrete_inputs(meta, fn_args, model):
    """model (name -> value) -> per-argument concrete oracle-level inputs and IR-level byte strings"""
    o = ops.BY_NAME[meta['op']]
    T = harness.type_of(meta)
    S = harness.signed_of(T)
    ins, bts = [], []
    for i, kind in enumerate(o.args):
        aty = fn_args[i]
        if kind in 'vwx':
            AT = T if kind == 'v' else S
            lanes = [int(model.get('a%d_%d' % (i, j), 0)) for j in range(AT.n)]
            ins.append(lanes)
            bts.append(ir_bytes(harness.pack_lanes(lanes, AT.bits, aty), aty))
        elif kind == 'm':
            bs = [bool(model.get('m%d_%d' % (i, j), False)) for j in range(T.n)]
            ins.append(bs)
            bts.append(ir_bytes(harness.pack_mask(bs, T.bits, aty), aty))
        elif kind in 'sLU':
            v = int(model.get('s%d' % i, 0))
            ins.append(v)
            bts.append(ir_bytes([(v, False)], aty))
        elif kind == 'b':
            b = bool(model.get('b%d' % i, False))
            ins.append(b)
            bts.append([1 if b else 0])
    return ins, bts


def rm_name(model):
    r = str(model.get('rm', 'RNE'))
    for k in RM_FE:
        if k in r:
            return k
    return 'RNE'


def make_program(meta, arg_bytes, rm):
    lines = ['#include "verif_prelude.hpp"', '#include <cstdio>', '#include <cstring>', '#include <cfenv>', '#include <csignal>', '#include <cstdlib>',
             meta['line'],
             'static void on_sig(int s) { std::printf("SIGNAL %d\\n", s); std::fflush(stdout); std::_Exit(3); }',
             'int main() {',
             '    std::signal(SIGFPE, on_sig); std::signal(SIGSEGV, on_sig); std::signal(SIGBUS, on_sig); std::signal(SIGILL, on_sig);']
    names = []
    for i, (pt, bs) in enumerate(zip(meta['params'], arg_bytes)):
        lines.append('    unsigned char b%d[] = {%s};' % (i, ', '.join(str(b) for b in bs)))
        lines.append('    %s a%d; std::memcpy(&a%d, b%d, sizeof a%d < sizeof b%d ? sizeof a%d : sizeof b%d);' % (pt, i, i, i, i, i, i, i))
        names.append('a%d' % i)
    # volatile function pointer + compiler barriers: GCC may otherwise move the (const-looking) call across fesetround
    lines.append('    decltype(&%s) volatile fp_ = &%s;' % (meta['name'], meta['name']))
    lines.append('    std::fesetround(%s); __asm__ __volatile__("" ::: "memory");' % RM_FE[rm])
    lines.append('    unsigned before = _mm_getcsr_compat();')
    if meta['rtype'] == 'void':
        lines.append('    fp_(%s);' % ', '.join(names))
    else:
        lines.append('    auto r = fp_(%s);' % ', '.join(names))
    lines.append('    __asm__ __volatile__("" ::: "memory");')
    lines.append('    unsigned after = _mm_getcsr_compat();')
    lines.append('    std::fesetround(FE_TONEAREST);')
    if meta['rtype'] != 'void':
        lines.append('    unsigned char out[sizeof r]; std::memcpy(out, &r, sizeof r);')
        lines.append('    std::printf("RESULT "); for (unsigned i = 0; i < sizeof r; ++i) std::printf("%02x", out[i]); std::printf("\\n");')
    lines.append('    std::printf("MXCSR %08x %08x\\n", before, after);')
    lines.append('    return 0;')
    lines.append('}')
    pre = ['static inline unsigned _mm_getcsr_compat() { unsigned v; __asm__ __volatile__("stmxcsr %0" : "=m"(v)); return v; }']
    return '\n'.join(lines[:6] + pre + lines[6:]) + '\n'


def _unlimit():
    import resource
    try:
        soft, hard = resource.getrlimit(resource.RLIMIT_AS)
        resource.setrlimit(resource.RLIMIT_AS, (hard, hard))
    except Exception:
        pass


def run_native(meta, cfg, arg_bytes, rm, outdir, compilers=None, sanitize=False):
    os.makedirs(outdir, exist_ok=True)
    src = os.path.join(outdir, 'repro.cpp')
    open(src, 'w').write(make_program(meta, arg_bytes, rm))
    res = {}
    compilers = compilers or [('clang++-14', '-O1'), ('g++', '-O2')]
    for cc, opt in compilers:
        exe = os.path.join(outdir, 'repro.%s%s' % (cc.replace('+', 'x'), '.san' if sanitize else ''))
        cmd = [cc] + cfg.flags() + [opt, '-w', '-I' + os.path.join(build.HERE, 'cxx'), '-I' + build.repo_include(), src, '-o', exe]
        if sanitize:
            cmd[1:1] = ['-fsanitize=undefined', '-fno-omit-frame-pointer']
            cmd = [c for c in cmd if c != opt] + ['-O0']
        r = subprocess.run(cmd, stdout=subprocess.PIPE, stderr=subprocess.PIPE, universal_newlines=True)
        key = cc + opt
        if r.returncode != 0:
            res[key] = {'error': 'compile failed', 'stderr': r.stderr[-1500:]}
            continue
        try:
            rr = subprocess.run([exe], stdout=subprocess.PIPE, stderr=subprocess.PIPE, universal_newlines=True, timeout=60, preexec_fn=_unlimit)
            out, err, code = rr.stdout, rr.stderr, rr.returncode
        except subprocess.TimeoutExpired:
            out, err, code = '', 'timeout', -1
        d = {'exit': code, 'stdout': out[-2000:], 'stderr': err[-3000:], 'cmd': ' '.join(cmd)}
        m = re.search(r'RESULT ([0-9a-f]*)', out)
        if m:
            h = m.group(1)
            d['bytes'] = [int(h[i:i + 2], 16) for i in range(0, len(h), 2)]
        m = re.search(r'MXCSR ([0-9a-f]+) ([0-9a-f]+)', out)
        if m:
            d['mxcsr'] = (int(m.group(1), 16), int(m.group(2), 16))
        m = re.search(r'SIGNAL (\d+)', out)
        if m:
            d['signal'] = int(m.group(1))
        res[key] = d
        try:
            os.unlink(exe)
        except OSError:
            pass
    return res


def judge(meta, rty, ins, native, kind):
    """does the native observation exhibit the violation class `kind`?  -> (bool, detail)"""
    o = ops.BY_NAME[meta['op']]
    T = harness.type_of(meta)
    if 'error' in native:
        return False, native['error']
    if kind.startswith('trap'):
        return ('signal' in native), 'signal %s' % native.get('signal')
    if kind.startswith('ub:'):
        rep = [l for l in native.get('stderr', '').split('\n') if 'runtime error:' in l]
        return bool(rep), ('UBSan: ' + rep[0][-300:]) if rep else 'no sanitizer report'
    if kind.startswith('fpenv'):
        b, a = native.get('mxcsr', (0, 0))
        return ((b ^ a) & 0xFFC0) != 0, 'mxcsr %08x -> %08x' % (b, a)
    if 'signal' in native:
        return True, 'signal %d raised' % native['signal']
    if 'bytes' not in native:
        return False, 'no result'
    ret = bytes_ir(native['bytes'], rty)
    kw = {}
    if meta.get('K') is not None:
        kw['K'] = meta['K']
    rmname = native.get('rm', 'RNE')
    ops.CTX.rm = {'RNE': fp.RNE, 'RTP': fp.RTP, 'RTN': fp.RTN, 'RTZ': fp.RTZ}[rmname]
    exp = o.oracle(T, *ins, **kw)
    obls = harness.result_obligations(o, T, meta, rty, ret, exp, ins, True, 'replay')
    for ob in obls:
        if ob['kind'] != 'result':
            continue
        f = ob['formula']
        f = sym.sb(f) if not isinstance(f, bool) else f
        if f is True:
            return True, '%s: observed %s, expected %s' % (ob['desc'], fmt(ob.get('got')), fmt(ob.get('exp')))
    return False, 'native result matches the oracle'


def fmt(x):
    if isinstance(x, bool):
        return str(x)
    if isinstance(x, int):
        return hex(x)
    if isinstance(x, list):
        return '[' + ', '.join(fmt(y) for y in x) + ']'
    try:
        return fmt(sym.nsimp(x))
    except Exception:
        return str(x)


def replay_cex(prop, meta, cfg, fn_arg_types, rty, model, kind, tag=''):
    """-> dict(confirmed, detail, path, natives)"""
    ops.CTX.consts = sysconsts.load()
    ins, bts = concrete_inputs(meta, fn_arg_types, model)
    rm = rm_name(model)
    h = hashlib.sha1(json.dumps([meta['name'], cfg.name, bts, rm, kind], sort_keys=True).encode()).hexdigest()[:10]
    outdir = os.path.join(REPLAYS, prop, '%s.%s.%s' % (meta['name'], cfg.name, h))
    sanitize = kind.startswith('ub:')
    natives = run_native(meta, cfg, bts, rm, outdir, sanitize=sanitize,
                         compilers=[('clang++-14', '-O1')] if sanitize else None)
    confirmed = False
    details = {}
    for key, nat in natives.items():
        nat['rm'] = rm
        ok, det = judge(meta, rty, ins, nat, kind)
        details[key] = det
        if ok:
            confirmed = True
    case = {'property': prop, 'wrapper': meta, 'config': cfg.name, 'config_flags': cfg.flags(), 'kind': kind,
            'inputs': [fmt(i) for i in ins], 'arg_bytes': bts, 'rounding_mode': rm, 'confirmed': confirmed, 'details': details}
    json.dump(case, open(os.path.join(outdir, 'case.json'), 'w'), indent=1, default=str)
    sh = os.path.join(outdir, 'run.sh')
    open(sh, 'w').write('#!/bin/sh\n# replays a counterexample against the real headers; exit 1 if the violation reproduces\n'
                        'cd "%s" && exec %s -m avelverif.replay "%s"\n' % (ROOT, 'python3-vt', outdir))
    os.chmod(sh, 0o755)
    return {'confirmed': confirmed, 'detail': details, 'path': sh, 'inputs': case['inputs'], 'rm': rm}


def main(argv):
    d = argv[1]
    case = json.load(open(os.path.join(d, 'case.json')))
    meta = case['wrapper']
    cfg = configs.BY_NAME[case['config']]
    # the IR types are recovered by recompiling the single wrapper
    text, ok, dropped, cmd, _ll = build.compile_ir(cfg, [meta], 'replay', keep=False)
    mod = llir.parse_module(text)
    fn = mod.fns[meta['name']]
    ops.CTX.consts = sysconsts.load()
    kind = case['kind']
    sanitize = kind.startswith('ub:')
    natives = run_native(meta, cfg, case['arg_bytes'], case['rounding_mode'], d, sanitize=sanitize,
                         compilers=[('clang++-14', '-O1')] if sanitize else None)
    o = ops.BY_NAME[meta['op']]
    T = harness.type_of(meta)
    model = {}
    # rebuild oracle-level inputs from the stored bytes
    ins = []
    S = harness.signed_of(T)
    for i, k in enumerate(o.args):
        aty = fn.args[i][1]
        val = bytes_ir(case['arg_bytes'][i], aty)
        if k in 'vwx':
            AT = T if k == 'v' else S
            ins.append(harness.unpack_lanes(val, aty, AT.bits, AT.n)[0])
        elif k == 'm':
            if aty.kind == 'vec' and aty.lbits() > 1:
                ins.append([bool(x & 1) for x in harness.unpack_lanes(val, aty, T.bits, T.n)[0]])
            else:
                v = val[0][0] if aty.kind != 'vec' else sum((x & 1) << j for j, (x, _) in enumerate(val))
                ins.append([bool((v >> j) & 1) for j in range(T.n)])
        elif k == 'b':
            ins.append(bool(val[0][0] & 1))
        else:
            ins.append(val[0][0])
    bad = False
    for key, nat in natives.items():
        nat['rm'] = case['rounding_mode']
        ok_, det = judge(meta, fn.ret, ins, nat, kind)
        print('%s: %s -> %s' % (key, 'REPRODUCES' if ok_ else 'does not reproduce', det))
        bad = bad or ok_
    return 1 if bad else 0


if __name__ == '__main__':
    sys.exit(main(sys.argv))
