"""Operation table: for every public AVEL operation the C++ expression the wrapper evaluates and the oracle
(written from the property statements, in bit-vector / IEEE terms, independent of the implementation).

Argument kinds:  v vector of T | w vector of T's signed counterpart | x signed-integer vector with T's lane size
                 m mask of T | s scalar element | L long long | U std::uint32_t | b bool
Result kinds:    v w x m s b U  (same meaning), q = result compared with a custom comparator
Oracles work on lanes that are python ints or z3 terms (via sym/fp helpers), so the same oracle is used
symbolically and for concrete translator validation.
"""
import z3
from . import sym, fp
from .sym import M, b_and, b_or, b_not


class Ctx:
    rm = fp.RNE
    consts = {}        # FP_* / FP_ILOGB* from the system headers


CTX = Ctx()


class Op:
    def __init__(self, name, args, ret, expr, oracle, cls='ui', props=(), pre=None, lane_pre=None, cmp='bits',
                 consts=None, scalar=None, widths=None, tier='quick', note='', rm='sym', alt=None, only_types=None, dst=None, slices=None, slices_cover=False):
        self.slices_cover = slices_cover    # the slices partition the whole domain: all of them unsat == the obligation is discharged (case split)
        self.slices = slices      # bounded sub-domains tried when the full-domain query is undecided: fn(T, lane, *args) -> [(name, constraint)]
        self.only_types = only_types
        self.dst = dst
        self.alt = alt          # (predicate on T, alternative oracle): the obligation is discharged when either oracle is matched
        self.rm = rm
        self.name = name
        self.args = args
        self.ret = ret
        self.expr = expr
        self.oracle = oracle
        self.cls = cls
        self.props = tuple(props)
        self.pre = pre
        self.lane_pre = lane_pre
        self.cmp = cmp
        self.consts = consts        # function T -> list of template constants, or None
        self.scalar = scalar        # C++ expression for the scalar overload (None: no scalar overload)
        self.widths = widths        # None or predicate on T
        self.tier = tier
        self.note = note


OPS = []


def op(*a, **k):
    o = Op(*a, **k)
    OPS.append(o)
    return o


def lw(f):
    """lift a per-lane function to whole-argument lists"""
    def g(T, *args, **kw):
        n = T.n
        out = []
        for i in range(n):
            la = [(a[i] if isinstance(a, list) else a) for a in args]
            out.append(f(T, *la, **kw))
        return out
    g.lane = f
    return g


# =========================================================================== integer oracles
def o_add(T, a, b): return sym.add(a, b, T.bits)
def o_sub(T, a, b): return sym.sub(a, b, T.bits)
def o_mul(T, a, b): return sym.mul(a, b, T.bits)
def o_neg(T, a): return sym.neg(a, T.bits)
def o_inc(T, a): return sym.add(a, 1, T.bits)
def o_dec(T, a): return sym.sub(a, 1, T.bits)
def o_id(T, a): return a
def o_and(T, a, b): return sym.and_(a, b, T.bits)
def o_or(T, a, b): return sym.or_(a, b, T.bits)
def o_xor(T, a, b): return sym.xor(a, b, T.bits)
def o_not(T, a): return sym.not_(a, T.bits)


def lt(T, a, b):
    if T.kind == 'f':
        return fp.fcmp('olt', a, b, T.bits)
    return sym.slt(a, b, T.bits) if T.signed else sym.ult(a, b, T.bits)


def le(T, a, b):
    if T.kind == 'f':
        return fp.fcmp('ole', a, b, T.bits)
    return sym.sle(a, b, T.bits) if T.signed else sym.ule(a, b, T.bits)


def o_eq(T, a, b): return fp.fcmp('oeq', a, b, T.bits) if T.kind == 'f' else sym.eq(a, b, T.bits)
def o_ne(T, a, b): return fp.fcmp('une', a, b, T.bits) if T.kind == 'f' else sym.ne(a, b, T.bits)
def o_lt(T, a, b): return lt(T, a, b)
def o_le(T, a, b): return le(T, a, b)
def o_gt(T, a, b): return lt(T, b, a)
def o_ge(T, a, b): return le(T, b, a)


def amt64_ok(T, s):
    return sym.ule(s, T.bits, 64)


def o_shl_s(T, a, s):
    w = T.bits
    return sym.ite(sym.uge(s, w, 64), 0, sym.shl(a, sym.trunc(s, 64, w), w), w)


def o_shr_s(T, a, s):
    w = T.bits
    sh = sym.trunc(s, 64, w)
    if T.signed:
        return sym.ite(sym.uge(s, w, 64), sym.ashr(a, w - 1, w), sym.ashr(a, sh, w), w)
    return sym.ite(sym.uge(s, w, 64), 0, sym.lshr(a, sh, w), w)


def o_shl_v(T, a, s):
    w = T.bits
    return sym.ite(sym.uge(s, w, w), 0, sym.shl(a, s, w), w)


def o_shr_v(T, a, s):
    w = T.bits
    if T.signed:
        return sym.ite(sym.uge(s, w, w), sym.ashr(a, w - 1, w), sym.ashr(a, s, w), w)
    return sym.ite(sym.uge(s, w, w), 0, sym.lshr(a, s, w), w)


def o_shl_k(T, a, K): return o_shl_v(T, a, K)
def o_shr_k(T, a, K): return o_shr_v(T, a, K)


def rot(T, a, r, left):
    """rotate by r (already reduced to [0,bits))"""
    w = T.bits
    if isinstance(r, int) and isinstance(a, int):
        r %= w
        if not left:
            r = (w - r) % w
        return ((a << r) | (a >> (w - r))) & M(w) if r else a
    a = sym.bv(a, w)
    r = sym.bv(r, w)
    return z3.RotateLeft(a, r) if left else z3.RotateRight(a, r)


def o_rotl_k(T, a, K): return rot(T, a, K % T.bits, True)
def o_rotr_k(T, a, K): return rot(T, a, K % T.bits, False)
def o_rotl_s(T, a, s): return rot(T, a, sym.and_(sym.trunc(s, 64, T.bits), T.bits - 1, T.bits), True)
def o_rotr_s(T, a, s): return rot(T, a, sym.and_(sym.trunc(s, 64, T.bits), T.bits - 1, T.bits), False)
def o_rotl_v(T, a, s): return rot(T, a, sym.and_(s, T.bits - 1, T.bits), True)
def o_rotr_v(T, a, s): return rot(T, a, sym.and_(s, T.bits - 1, T.bits), False)


def div_ok(T, a, b):
    w = T.bits
    c = sym.ne(b, 0, w)
    if T.signed:
        c = b_and(c, b_not(b_and(sym.eq(a, 1 << (w - 1), w), sym.eq(b, M(w), w))))
    return c


def ref_longdiv(a, b, w):
    """REF: textbook shift-subtract long division written directly in bit-vector terms (quotient, remainder).
    Proved equal to bvudiv/bvurem by the solver for w = 8 and 16 and for 32-bit slices (lemma obligations of C05);
    used as the oracle for 32/64-bit SIMD lanes, where impl == bvudiv is beyond every back end (DESIGN.md section 4)."""
    x = a
    q = 0
    for i in reversed(range(w)):
        t = sym.lshr(x, i, w)
        c = sym.uge(t, b, w)
        x = sym.sub(x, sym.ite(c, sym.shl(b, i, w), 0, w), w)
        q = sym.or_(q, sym.ite(c, 1 << i, 0, w), w)
    return q, x


def use_ref(T):
    return T.bits >= 32 and T.n > 1


def ref_signed(T, a, b):
    w = T.bits
    na, nb_ = sym.slt(a, 0, w), sym.slt(b, 0, w)
    ua = sym.ite(na, sym.neg(a, w), a, w)
    ub = sym.ite(nb_, sym.neg(b, w), b, w)
    q, r = ref_longdiv(ua, ub, w)
    neg_q = sym.b_ite(na, b_not(nb_), nb_)
    return sym.ite(neg_q, sym.neg(q, w), q, w), sym.ite(na, sym.neg(r, w), r, w)


def o_quot(T, a, b): return sym.sdiv(a, b, T.bits) if T.signed else sym.udiv(a, b, T.bits)
def o_rem(T, a, b): return sym.srem(a, b, T.bits) if T.signed else sym.urem(a, b, T.bits)


def sm_div(T, a, b):
    """signed division written as unsigned division of the magnitudes plus sign fix-up (the same function as bvsdiv/bvsrem)"""
    w = T.bits
    na, nb_ = sym.slt(a, 0, w), sym.slt(b, 0, w)
    ua = sym.ite(na, sym.neg(a, w), a, w)
    ub = sym.ite(nb_, sym.neg(b, w), b, w)
    q, r = sym.udiv(ua, ub, w), sym.urem(ua, ub, w)
    neg_q = sym.b_ite(na, b_not(nb_), nb_)
    return sym.ite(neg_q, sym.neg(q, w), q, w), sym.ite(na, sym.neg(r, w), r, w)


def o_rem_ms(T, a, b):
    """remainder written as x - (x / y) * y (the same function as bvurem/bvsrem for every y, zero included); matches implementations
    that derive the remainder from the quotient by multiply-subtract"""
    w = T.bits
    if not T.signed:
        return sym.sub(a, sym.mul(sym.udiv(a, b, w), b, w), w)
    na, nb_ = sym.slt(a, 0, w), sym.slt(b, 0, w)
    ua = sym.ite(na, sym.neg(a, w), a, w)
    ub = sym.ite(nb_, sym.neg(b, w), b, w)
    r = sym.sub(ua, sym.mul(sym.udiv(ua, ub, w), ub, w), w)
    return sym.ite(na, sym.neg(r, w), r, w)


def always(T): return True


def o_quot_sm(T, a, b): return sm_div(T, a, b)[0]
def o_rem_sm(T, a, b): return sm_div(T, a, b)[1]
def is_signed(T): return T.signed


def o_quot_ref(T, a, b):
    return ref_signed(T, a, b)[0] if T.signed else ref_longdiv(a, b, T.bits)[0]


def o_rem_ref(T, a, b):
    return ref_signed(T, a, b)[1] if T.signed else ref_longdiv(a, b, T.bits)[1]


def o_popcount(T, a): return sym.popcount(a, T.bits)
def o_byteswap(T, a): return sym.bswap(a, T.bits) if T.bits > 8 else a
def o_clz(T, a): return sym.ctlz(a, T.bits)
def o_clo(T, a): return sym.ctlz(sym.not_(a, T.bits), T.bits)
def o_ctz(T, a): return sym.cttz(a, T.bits)
def o_cto(T, a): return sym.cttz(sym.not_(a, T.bits), T.bits)
def o_bit_width(T, a): return sym.sub(T.bits, sym.ctlz(a, T.bits), T.bits)


def o_bit_floor(T, a):
    w = T.bits
    return sym.ite(sym.eq(a, 0, w), 0, sym.shl(1, sym.sub(w - 1, sym.ctlz(a, w), w), w), w)


def o_bit_ceil(T, a):
    w = T.bits
    top = 1 << (w - 1)
    sh = sym.sub(w, sym.ctlz(sym.sub(a, 1, w), w), w)
    return sym.ite(sym.ule(a, 1, w), 1, sym.ite(sym.ugt(a, top, w), 0, sym.shl(1, sh, w), w), w)


def o_single_bit(T, a):
    w = T.bits
    return b_and(sym.ne(a, 0, w), sym.eq(sym.and_(a, sym.sub(a, 1, w), w), 0, w))


def o_cls(T, a):
    w = T.bits
    return sym.sub(sym.ctlz(sym.xor(a, sym.ashr(a, 1, w), w), w), 1, w)


def o_blend(T, m, a, b):
    return sym.ite(m, a, b, T.bits)


def o_keep(T, m, a): return sym.ite(m, a, 0, T.bits)
def o_clear(T, m, a): return sym.ite(m, 0, a, T.bits)
def o_set_bits(T, m): return sym.ite(m, M(T.bits), 0, T.bits)
def o_from_mask(T, m):
    one = 1 if T.kind != 'f' else {32: 0x3F800000, 64: 0x3FF0000000000000}[T.bits]
    return sym.ite(m, one, 0, T.bits)


def o_to_mask(T, a):
    if T.kind == 'f':
        return fp.fcmp('une', a, 0, T.bits)
    return sym.ne(a, 0, T.bits)


def o_min(T, a, b): return sym.ite(lt(T, b, a), b, a, T.bits)
def o_max(T, a, b): return sym.ite(lt(T, a, b), b, a, T.bits)
def o_clamp(T, x, lo, hi): return o_min(T, o_max(T, x, lo), hi)
def clamp_pre(T, x, lo, hi): return [lt(T, l, h) for l, h in zip(lo, hi)] if isinstance(lo, list) else [lt(T, lo, hi)]


def o_abs(T, a):
    w = T.bits
    if T.kind == 'f':
        return sym.and_(a, M(w - 1), w)
    return sym.ite(sym.slt(a, 0, w), sym.neg(a, w), a, w)


def o_neg_abs(T, a):
    w = T.bits
    if T.kind == 'f':
        return sym.or_(a, 1 << (w - 1), w)
    return sym.ite(sym.slt(a, 0, w), a, sym.neg(a, w), w)


def o_negate(T, m, a):
    w = T.bits
    if T.kind == 'f':
        return sym.ite(m, sym.xor(a, 1 << (w - 1), w), a, w)
    return sym.ite(m, sym.neg(a, w), a, w)


def o_copysign(T, a, b):
    w = T.bits
    return sym.or_(sym.and_(a, M(w - 1), w), sym.and_(b, 1 << (w - 1), w), w)


def o_fneg(T, a): return sym.xor(a, 1 << (T.bits - 1), T.bits)


def o_average(T, a, b):
    w = T.bits
    if T.signed:
        s = sym.add(sym.sext(a, w, w + 2), sym.sext(b, w, w + 2), w + 2)
        return sym.trunc(sym.sdiv(s, 2, w + 2), w + 2, w)
    s = sym.add(sym.zext(a, w, w + 1), sym.zext(b, w, w + 1), w + 1)
    return sym.trunc(sym.lshr(s, 1, w + 1), w + 1, w)


def o_midpoint(T, a, b):
    w = T.bits
    ext = sym.sext if T.signed else sym.zext
    d = sym.sub(ext(b, w, w + 2), ext(a, w, w + 2), w + 2)
    return sym.trunc(sym.add(ext(a, w, w + 2), sym.sdiv(d, 2, w + 2), w + 2), w + 2, w)


# reductions over masks / vectors
def o_count(T, m):
    r = 0
    for b in m:
        r = sym.add(r, sym.ite(b, 1, 0, 32), 32)
    return r


def o_any(T, m): return b_or(*m)
def o_all(T, m): return b_and(*m)
def o_none(T, m): return b_not(b_or(*m))
def o_vcount(T, v): return o_count(T, [o_to_mask(T, x) for x in v])
def o_vany(T, v): return b_or(*[o_to_mask(T, x) for x in v])
def o_vall(T, v): return b_and(*[o_to_mask(T, x) for x in v])
def o_vnone(T, v): return b_not(o_vany(T, v))
def o_meq(T, a, b): return b_and(*[sym.b_ite(x, y, b_not(y)) for x, y in zip(a, b)])
def o_mne(T, a, b): return b_not(o_meq(T, a, b))


def o_m_and(T, a, b): return b_and(a, b)
def o_m_or(T, a, b): return b_or(a, b)
def o_m_xor(T, a, b): return sym.b_ite(a, b_not(b), b)
def o_m_not(T, a): return b_not(a)
def o_m_id(T, a): return a
def o_m_bcast(T, b): return [b] * T.n
def o_m_extract(T, m, K): return m[K]
def o_m_insert(T, m, b, K): return [b if i == K else x for i, x in enumerate(m)]
def o_v_bcast(T, s): return [s] * T.n
def o_v_extract(T, v, K): return v[K]
def o_v_insert(T, v, s, K): return [s if i == K else x for i, x in enumerate(v)]


# =========================================================================== float oracles
def f_arith(opname):
    def f(T, a, b):
        return fp.binop(opname, CTX.rm, a, b, T.bits)
    return f


def one_bits(T):
    return {32: 0x3F800000, 64: 0x3FF0000000000000}[T.bits]


def o_finc(T, a): return fp.binop('fadd', CTX.rm, a, one_bits(T), T.bits)
def o_fdec(T, a): return fp.binop('fsub', CTX.rm, a, one_bits(T), T.bits)
def o_sqrt(T, a): return fp.sqrt(CTX.rm, a, T.bits)
def o_ceil(T, a): return fp.round_int(fp.RTP, a, T.bits)
def o_floor(T, a): return fp.round_int(fp.RTN, a, T.bits)
def o_trunc(T, a): return fp.round_int(fp.RTZ, a, T.bits)
def o_round(T, a): return fp.round_int(fp.RNA, a, T.bits)
def o_nearbyint(T, a): return fp.round_int(CTX.rm, a, T.bits)


def nonnan(T, *xs):
    return b_and(*[b_not(fp.is_nan_bits(x, T.bits)) for x in xs])


def o_fminmax_alts(T, a, b, is_min):
    """acceptable results for min/max on non-NaN inputs: the operand that compares smaller (larger); either when equal"""
    c1 = le(T, a, b) if is_min else le(T, b, a)
    c2 = le(T, b, a) if is_min else le(T, a, b)
    return [sym.ite(c1, a, b, T.bits), sym.ite(c2, b, a, T.bits)]


def o_fmin(T, a, b): return o_fminmax_alts(T, a, b, True)
def o_fmax(T, a, b): return o_fminmax_alts(T, a, b, False)


def o_fclamp(T, x, lo, hi):
    # clamp(x, lo, hi) with lo < hi, no NaN: lo if x < lo, hi if hi < x, else x (either when equal)
    w = T.bits
    r1 = sym.ite(lt(T, x, lo), lo, sym.ite(lt(T, hi, x), hi, x, w), w)
    r2 = sym.ite(le(T, x, lo), lo, sym.ite(le(T, hi, x), hi, x, w), w)
    return [r1, r2]


def is_snan(T, x):
    w = T.bits
    return b_and(fp.is_nan_bits(x, w), b_not(sym.truth(sym.extract(x, fp.SB[w] - 2, fp.SB[w] - 2, w))))


def snan_alt(T, a, b, dflt):
    """ISO C leaves fmax/fmin of a signaling NaN unspecified (glibc and vrange return a quiet NaN): accept NaN then"""
    return sym.ite(b_or(is_snan(T, a), is_snan(T, b)), fp.qnan_default(T.bits), dflt, T.bits)


def o_cfmax(T, a, b):
    """C fmax: other operand when exactly one is NaN; NaN when both; else larger (either zero for +-0)"""
    w = T.bits
    na, nb_ = fp.is_nan_bits(a, w), fp.is_nan_bits(b, w)
    alts = o_fminmax_alts(T, a, b, False)
    return [sym.ite(na, b, sym.ite(nb_, a, x, w), w) for x in alts] + [snan_alt(T, a, b, alts[0])]


def o_cfmin(T, a, b):
    w = T.bits
    na, nb_ = fp.is_nan_bits(a, w), fp.is_nan_bits(b, w)
    alts = o_fminmax_alts(T, a, b, True)
    return [sym.ite(na, b, sym.ite(nb_, a, x, w), w) for x in alts] + [snan_alt(T, a, b, alts[0])]


def o_fdim(T, a, b):
    w = T.bits
    d = fp.binop('fsub', CTX.rm, a, b, w)
    nan = b_or(fp.is_nan_bits(a, w), fp.is_nan_bits(b, w))
    return sym.ite(nan, fp.qnan_default(w), sym.ite(lt(T, b, a), d, 0, w), w)


def fdim_lane_pre(T, i, a, b):
    # the statement defines fdim as max(x-y,0); for equal-signed infinities x-y has no value: excluded
    w = T.bits
    inf = M(fp.EB[w]) << (fp.SB[w] - 1)
    both_inf_same = b_and(sym.eq(sym.and_(a[i], M(w - 1), w), inf, w), sym.eq(a[i], b[i], w))
    return b_not(both_inf_same)


def o_frac(T, a):
    w = T.bits
    t = fp.round_int(fp.RTZ, a, w)
    return fp.binop('fsub', fp.RNE, a, t, w)


def fields(T, a):
    w = T.bits
    sb, eb = fp.SB[w], fp.EB[w]
    sign = sym.extract(a, w - 1, w - 1, w)
    ex = sym.extract(a, w - 2, sb - 1, w)
    mant = sym.extract(a, sb - 2, 0, w)
    return sign, ex, mant, sb, eb


def norm_exp_mant(T, a):
    """for finite non-zero a: (unbiased exponent e with |a| = 1.m * 2^e as signed value in W=16 bits, normalised mantissa field)"""
    w = T.bits
    sign, ex, mant, sb, eb = fields(T, a)
    bias = (1 << (eb - 1)) - 1
    mw = sb - 1
    W = 16
    lz = sym.ctlz(mant, mw)                       # leading zeros of the mantissa field
    k = sym.add(sym.zext(lz, mw, 64) if not isinstance(lz, int) else lz, 1, 64)   # shift to bring the leading one to the hidden position
    k16 = sym.trunc(k, 64, W)
    sub = sym.eq(ex, 0, eb)
    mant_n = sym.ite(sub, sym.and_(sym.shl(mant, sym.trunc(k, 64, mw), mw), M(mw), mw), mant, mw)
    e_norm = sym.sub(sym.zext(ex, eb, W), bias, W)
    e_sub = sym.sub((1 - bias) & M(W), k16, W)
    e = sym.ite(sub, e_sub, e_norm, W)
    return e, mant_n


def o_frexp_m(T, a):
    w = T.bits
    sign, ex, mant, sb, eb = fields(T, a)
    bias = (1 << (eb - 1)) - 1
    e, mant_n = norm_exp_mant(T, a)
    special = b_or(sym.eq(ex, M(eb), eb), b_and(sym.eq(ex, 0, eb), sym.eq(mant, 0, sb - 1)))
    res, _ = sym.concat([(mant_n, sb - 1), (bias - 1, eb), (sign, 1)])
    return sym.ite(special, a, res, w)


def o_frexp_e(T, a):
    """exponent as a signed integer lane of width T.bits"""
    w = T.bits
    sign, ex, mant, sb, eb = fields(T, a)
    e, _ = norm_exp_mant(T, a)
    zero = b_and(sym.eq(ex, 0, eb), sym.eq(mant, 0, sb - 1))
    e1 = sym.add(e, 1, 16)
    return sym.ite(zero, 0, sym.sext(e1, 16, w), w)


def frexp_e_lane_pre(T, i, a):
    # exponent unspecified for inf / NaN
    sign, ex, mant, sb, eb = fields(T, a[i])
    return sym.ne(ex, M(eb), eb)


def o_ldexp(T, a, e):
    """x * 2^e with a single rounding (exact product in a format with a wider exponent range)"""
    w = T.bits
    sb = fp.SB[w]
    EBW = 15
    wide = z3.FPSort(EBW, sb)
    lim = 5000
    es = sym.bv(e, w)
    ec = z3.If(es > lim, z3.BitVecVal(lim, w), z3.If(es < -lim, z3.BitVecVal(-lim & M(w), w), es))
    bias = (1 << (EBW - 1)) - 1
    expf = z3.Extract(EBW - 1, 0, ec + bias)
    p2 = z3.fpFP(z3.BitVecVal(0, 1), expf, z3.BitVecVal(0, sb - 1))
    xw = z3.fpFPToFP(fp.RNE, fp.to_fp(a, w), wide)
    prod = z3.fpMul(fp.RNE, xw, p2)       # exact: power-of-two scaling inside the wide exponent range
    r = z3.fpFPToFP(CTX.rm, prod, fp.SORT[w])
    out = fp.from_fp(r, w, fp.x86_nan1(a, w))
    return fp.done(out, a, e)


def ldexp_slices(T, i, a, e):
    """exhaustive case split of ldexp's domain on the class of x, the size of e and the class of the exact result"""
    w = T.bits
    sb, eb = fp.SB[w], fp.EB[w]
    x = sym.bv(a[i], w)
    ee = sym.bv(e[i], w)
    ex = z3.ZeroExt(w - eb, z3.Extract(w - 2, sb - 1, x))
    emax = M(eb)
    lim = 2 * emax + sb + 8
    L = z3.BitVecVal(lim, w)
    nL = z3.BitVecVal((-lim) & M(w), w)
    normal = z3.And(ex != 0, ex != emax)
    mid = z3.And(ee >= nL, ee <= L)
    re = ex + ee
    return [('x zero or subnormal, e <= 0', z3.And(ex == 0, ee <= 0)),
            ('x zero or subnormal, e > 0', z3.And(ex == 0, ee > 0)),
            ('x inf or NaN', ex == emax),
            ('x normal, e > %d' % lim, z3.And(normal, ee > L)),
            ('x normal, e < -%d' % lim, z3.And(normal, ee < nL)),
            ('x normal, |e| <= %d, exact result normal, e >= 0' % lim, z3.And(normal, mid, ee >= 0, re <= emax - 1)),
            ('x normal, |e| <= %d, exact result normal, e < 0' % lim, z3.And(normal, mid, ee < 0, re >= 1)),
            ('x normal, |e| <= %d, exact result below the normal range' % lim, z3.And(normal, mid, re <= 0)),
            ('x normal, |e| <= %d, exact result overflows' % lim, z3.And(normal, mid, re >= emax))]


def o_ilogb(T, a):
    w = T.bits
    sign, ex, mant, sb, eb = fields(T, a)
    e, _ = norm_exp_mant(T, a)
    zero = b_and(sym.eq(ex, 0, eb), sym.eq(mant, 0, sb - 1))
    inf = b_and(sym.eq(ex, M(eb), eb), sym.eq(mant, 0, sb - 1))
    nan = b_and(sym.eq(ex, M(eb), eb), sym.ne(mant, 0, sb - 1))
    def c(name):
        return CTX.consts[name] & M(32)
    r32 = sym.ite(zero, c('FP_ILOGB0'), sym.ite(inf, c('INT_MAX'), sym.ite(nan, c('FP_ILOGBNAN'), sym.sext(e, 16, 32), 32), 32), 32)
    return sym.sext(r32, 32, w) if w > 32 else r32


def o_logb(T, a):
    w = T.bits
    sign, ex, mant, sb, eb = fields(T, a)
    e, _ = norm_exp_mant(T, a)
    zero = b_and(sym.eq(ex, 0, eb), sym.eq(mant, 0, sb - 1))
    inf = b_and(sym.eq(ex, M(eb), eb), sym.eq(mant, 0, sb - 1))
    nan = b_and(sym.eq(ex, M(eb), eb), sym.ne(mant, 0, sb - 1))
    pinf = M(eb) << (sb - 1)
    ninf = pinf | (1 << (w - 1))
    ef = fp.si_to_fp(fp.RNE, sym.sext(e, 16, 32), 32, w, True)
    return sym.ite(zero, ninf, sym.ite(inf, pinf, sym.ite(nan, fp.qnan_default(w), ef, w), w), w)


def o_fpclassify(T, a):
    w = T.bits
    sign, ex, mant, sb, eb = fields(T, a)
    z = sym.eq(ex, 0, eb)
    f = sym.eq(ex, M(eb), eb)
    m0 = sym.eq(mant, 0, sb - 1)
    c = CTX.consts
    r = sym.ite(z, sym.ite(m0, c['FP_ZERO'], c['FP_SUBNORMAL'], 32),
                sym.ite(f, sym.ite(m0, c['FP_INFINITE'], c['FP_NAN'], 32), c['FP_NORMAL'], 32), 32)
    return sym.sext(r, 32, w) if w > 32 else r


def o_isnan(T, a): return fp.is_nan_bits(a, T.bits)
def o_isinf(T, a):
    sign, ex, mant, sb, eb = fields(T, a)
    return b_and(sym.eq(ex, M(eb), eb), sym.eq(mant, 0, sb - 1))
def o_isfinite(T, a):
    sign, ex, mant, sb, eb = fields(T, a)
    return sym.ne(ex, M(eb), eb)
def o_isnormal(T, a):
    sign, ex, mant, sb, eb = fields(T, a)
    return b_and(sym.ne(ex, M(eb), eb), sym.ne(ex, 0, eb))
def o_signbit(T, a): return sym.eq(sym.extract(a, T.bits - 1, T.bits - 1, T.bits), 1, 1)
def o_isgreater(T, a, b): return fp.fcmp('ogt', a, b, T.bits)
def o_isgreaterequal(T, a, b): return fp.fcmp('oge', a, b, T.bits)
def o_isless(T, a, b): return fp.fcmp('olt', a, b, T.bits)
def o_islessequal(T, a, b): return fp.fcmp('ole', a, b, T.bits)
def o_islessgreater(T, a, b): return fp.fcmp('one', a, b, T.bits)
def o_isunordered(T, a, b): return fp.fcmp('uno', a, b, T.bits)


# =========================================================================== template constants
def k_shift(T, tier):
    w = T.bits
    return sorted({0, 1, w // 2, w - 1, w}) if tier == 'quick' else list(range(w + 1))


def k_rot(T, tier):
    w = T.bits
    return sorted({0, 1, w // 2, w - 1, w, w + 3, w + w // 2, 2 * w - 1, 2 * w}) if tier == 'quick' else list(range(2 * w + 1))


def k_lane(T, tier):
    n = T.n
    return sorted({0, 1 % n, n // 2, n - 1}) if tier == 'quick' else list(range(n))


# =========================================================================== the table
I = 'ui'
F = 'f'
A = 'uif'
amt_pre = lambda T, a, s: [amt64_ok(T, s)]
vamt_pre = lambda T, a, s: [sym.ule(x, T.bits, T.bits) for x in s]
div_lp = lambda T, i, a, b: div_ok(T, a[i], b[i])


def div_slices(T, i, a, b):
    """bounded sub-domains for division (used only when the full-range query is undecided; results are reported as bounded)"""
    w = T.bits
    k = min(8, w // 2)
    x, y = a[i], b[i]
    if T.signed:
        small = lambda v: b_and(sym.sle(v, (1 << k) - 1, w), sym.sle((-(1 << k)) & M(w), v, w))
        return [('|x|,|y| < 2^%d' % k, b_and(small(x), small(y))),
                ('|y| < 2^%d, x within 2^%d of MIN/MAX' % (k, k), b_and(small(y), b_or(sym.sle(x, ((1 << (w - 1)) + (1 << k)) & M(w), w), sym.sle(((1 << (w - 1)) - 1 - (1 << k)) & M(w), x, w)))),
                ('y within 2^%d of MIN/MAX' % k, b_or(sym.sle(y, ((1 << (w - 1)) + (1 << k)) & M(w), w), sym.sle(((1 << (w - 1)) - 1 - (1 << k)) & M(w), y, w)))]
    return [('x,y < 2^%d' % k, b_and(sym.ult(x, 1 << k, w), sym.ult(y, 1 << k, w))),
            ('y < 2^%d, x >= 2^%d - 2^%d' % (k, w, k), b_and(sym.ult(y, 1 << k, w), sym.uge(x, M(w) - (1 << k) + 1, w))),
            ('y >= 2^%d - 2^%d' % (w, k), sym.uge(y, M(w) - (1 << k) + 1, w))]


amt_pre.__name__, vamt_pre.__name__, div_lp.__name__ = 'amt_pre', 'vamt_pre', 'div_lp'

# ---- C01
op('add', 'vv', 'v', '{0} + {1}', lw(o_add), I, ['C01'])
op('sub', 'vv', 'v', '{0} - {1}', lw(o_sub), I, ['C01'])
op('mul', 'vv', 'v', '{0} * {1}', lw(o_mul), I, ['C01'])
op('add_assign', 'vv', 'v', 'vf::add_assign({0}, {1})', lw(o_add), I, ['C01'])
op('sub_assign', 'vv', 'v', 'vf::sub_assign({0}, {1})', lw(o_sub), I, ['C01'])
op('mul_assign', 'vv', 'v', 'vf::mul_assign({0}, {1})', lw(o_mul), I, ['C01'])
op('neg', 'v', 'w', '-{0}', lw(o_neg), I, ['C01'])
op('pos', 'v', 'v', '+{0}', lw(o_id), I, ['C01'])
op('pre_inc', 'v', 'v', 'vf::pre_inc({0})', lw(o_inc), I, ['C01'])
op('post_inc_new', 'v', 'v', 'vf::post_inc_new({0})', lw(o_inc), I, ['C01'])
op('post_inc_old', 'v', 'v', 'vf::post_inc_old({0})', lw(o_id), I, ['C01'])
op('pre_dec', 'v', 'v', 'vf::pre_dec({0})', lw(o_dec), I, ['C01'])
op('post_dec_new', 'v', 'v', 'vf::post_dec_new({0})', lw(o_dec), I, ['C01'])
op('post_dec_old', 'v', 'v', 'vf::post_dec_old({0})', lw(o_id), I, ['C01'])

# ---- C02
for nm, cx, f in (('eq', '==', o_eq), ('ne', '!=', o_ne), ('lt', '<', o_lt), ('le', '<=', o_le), ('gt', '>', o_gt), ('ge', '>=', o_ge)):
    op('cmp_' + nm, 'vv', 'm', '{0} %s {1}' % cx, lw(f), A, ['C02'])

# ---- C03 masks
op('m_and', 'mm', 'm', '{0} & {1}', lw(o_m_and), A, ['C03'])
op('m_or', 'mm', 'm', '{0} | {1}', lw(o_m_or), A, ['C03'])
op('m_xor', 'mm', 'm', '{0} ^ {1}', lw(o_m_xor), A, ['C03'])
op('m_land', 'mm', 'm', '{0} && {1}', lw(o_m_and), A, ['C03'])
op('m_lor', 'mm', 'm', '{0} || {1}', lw(o_m_or), A, ['C03'])
op('m_not', 'm', 'm', '!{0}', lw(o_m_not), A, ['C03'])
op('m_and_assign', 'mm', 'm', 'vf::and_assign({0}, {1})', lw(o_m_and), A, ['C03'])
op('m_or_assign', 'mm', 'm', 'vf::or_assign({0}, {1})', lw(o_m_or), A, ['C03'])
op('m_xor_assign', 'mm', 'm', 'vf::xor_assign({0}, {1})', lw(o_m_xor), A, ['C03'])
op('m_eq', 'mm', 'b', '{0} == {1}', o_meq, A, ['C03'])
op('m_ne', 'mm', 'b', '{0} != {1}', o_mne, A, ['C03'])
op('m_count', 'm', 'U', 'avel::count({0})', o_count, A, ['C03'])
op('m_any', 'm', 'b', 'avel::any({0})', o_any, A, ['C03'])
op('m_all', 'm', 'b', 'avel::all({0})', o_all, A, ['C03'])
op('m_none', 'm', 'b', 'avel::none({0})', o_none, A, ['C03'])
op('m_extract', 'm', 'b', 'avel::extract<{K}>({0})', o_m_extract, A, ['C03'], consts=k_lane)
op('m_insert', 'mb', 'm', 'avel::insert<{K}>({0}, {1})', o_m_insert, A, ['C03'], consts=k_lane)
op('m_from_bool', 'b', 'm', '{M}{{{0}}}', o_m_bcast, A, ['C03'])
op('m_assign_bool', 'mb', 'm', 'vf::assign({0}, {1})', lambda T, m, b: [b] * T.n, A, ['C03'])
op('v_from_mask', 'm', 'v', '{V}{{{0}}}', lw(o_from_mask), A, ['C03'])
op('set_bits', 'm', 'v', 'avel::set_bits({0})', lw(o_set_bits), I, ['C03', 'C07'])
op('v_to_mask', 'v', 'm', 'static_cast<{M}>({0})', lw(o_to_mask), A, ['C03'])
op('v_count', 'v', 'U', 'avel::count({0})', o_vcount, A, ['C03'])
op('v_any', 'v', 'b', 'avel::any({0})', o_vany, A, ['C03'])
op('v_all', 'v', 'b', 'avel::all({0})', o_vall, A, ['C03'])
op('v_none', 'v', 'b', 'avel::none({0})', o_vnone, A, ['C03'])

# ---- C04
op('and', 'vv', 'v', '{0} & {1}', lw(o_and), I, ['C04'])
op('or', 'vv', 'v', '{0} | {1}', lw(o_or), I, ['C04'])
op('xor', 'vv', 'v', '{0} ^ {1}', lw(o_xor), I, ['C04'])
op('not', 'v', 'v', '~{0}', lw(o_not), I, ['C04'])
op('and_assign', 'vv', 'v', 'vf::and_assign({0}, {1})', lw(o_and), I, ['C04'])
op('or_assign', 'vv', 'v', 'vf::or_assign({0}, {1})', lw(o_or), I, ['C04'])
op('xor_assign', 'vv', 'v', 'vf::xor_assign({0}, {1})', lw(o_xor), I, ['C04'])
op('shl_s', 'vL', 'v', '{0} << {1}', lw(o_shl_s), I, ['C04'], pre=amt_pre)
op('shr_s', 'vL', 'v', '{0} >> {1}', lw(o_shr_s), I, ['C04'], pre=amt_pre)
op('shl_v', 'vv', 'v', '{0} << {1}', lw(o_shl_v), I, ['C04'], pre=vamt_pre)
op('shr_v', 'vv', 'v', '{0} >> {1}', lw(o_shr_v), I, ['C04'], pre=vamt_pre)
op('shl_s_assign', 'vL', 'v', 'vf::shl_assign({0}, {1})', lw(o_shl_s), I, ['C04'], pre=amt_pre)
op('shr_s_assign', 'vL', 'v', 'vf::shr_assign({0}, {1})', lw(o_shr_s), I, ['C04'], pre=amt_pre)
op('shl_v_assign', 'vv', 'v', 'vf::shl_assign({0}, {1})', lw(o_shl_v), I, ['C04'], pre=vamt_pre)
op('shr_v_assign', 'vv', 'v', 'vf::shr_assign({0}, {1})', lw(o_shr_v), I, ['C04'], pre=vamt_pre)
op('shl_k', 'v', 'v', 'avel::bit_shift_left<{K}>({0})', lw(o_shl_k), I, ['C04'], consts=k_shift)
op('shr_k', 'v', 'v', 'avel::bit_shift_right<{K}>({0})', lw(o_shr_k), I, ['C04'], consts=k_shift)
op('rotl_k', 'v', 'v', 'avel::rotl<{K}>({0})', lw(o_rotl_k), I, ['C04'], consts=k_rot)
op('rotr_k', 'v', 'v', 'avel::rotr<{K}>({0})', lw(o_rotr_k), I, ['C04'], consts=k_rot)
op('rotl_s', 'vL', 'v', 'avel::rotl({0}, {1})', lw(o_rotl_s), I, ['C04', 'C16'], scalar='avel::rotl({0}, {1})')
op('rotr_s', 'vL', 'v', 'avel::rotr({0}, {1})', lw(o_rotr_s), I, ['C04', 'C16'], scalar='avel::rotr({0}, {1})')
op('rotl_v', 'vv', 'v', 'avel::rotl({0}, {1})', lw(o_rotl_v), I, ['C04'])
op('rotr_v', 'vv', 'v', 'avel::rotr({0}, {1})', lw(o_rotr_v), I, ['C04'])

# ---- C05
op('div_quot', 'vv', 'v', 'avel::div({0}, {1}).quot', lw(o_quot), I, ['C05'], lane_pre=div_lp, slices=div_slices, alt=[(use_ref, lw(o_quot_ref)), (is_signed, lw(o_quot_sm))])
op('div_rem', 'vv', 'v', 'avel::div({0}, {1}).rem', lw(o_rem), I, ['C05'], lane_pre=div_lp, slices=div_slices, alt=[(use_ref, lw(o_rem_ref)), (is_signed, lw(o_rem_sm)), (always, lw(o_rem_ms))])
op('quot', 'vv', 'v', '{0} / {1}', lw(o_quot), I, ['C05'], lane_pre=div_lp, slices=div_slices, alt=[(use_ref, lw(o_quot_ref)), (is_signed, lw(o_quot_sm))], tier='thorough')
op('rem', 'vv', 'v', '{0} % {1}', lw(o_rem), I, ['C05'], lane_pre=div_lp, slices=div_slices, alt=[(use_ref, lw(o_rem_ref)), (is_signed, lw(o_rem_sm)), (always, lw(o_rem_ms))], tier='thorough')
op('quot_assign', 'vv', 'v', 'vf::div_assign({0}, {1})', lw(o_quot), I, ['C05'], lane_pre=div_lp, slices=div_slices, alt=[(use_ref, lw(o_quot_ref)), (is_signed, lw(o_quot_sm))], tier='thorough')
op('rem_assign', 'vv', 'v', 'vf::rem_assign({0}, {1})', lw(o_rem), I, ['C05'], lane_pre=div_lp, slices=div_slices, alt=[(use_ref, lw(o_rem_ref)), (is_signed, lw(o_rem_sm)), (always, lw(o_rem_ms))], tier='thorough')

# ---- C06
for nm, f in (('popcount', o_popcount), ('byteswap', o_byteswap), ('countl_zero', o_clz), ('countl_one', o_clo),
              ('countr_zero', o_ctz), ('countr_one', o_cto)):
    op(nm, 'v', 'v', 'avel::%s({0})' % nm, lw(f), I, ['C06', 'C16'], scalar='avel::%s({0})' % nm)
op('bit_width', 'v', 'v', 'avel::bit_width({0})', lw(o_bit_width), 'u', ['C06', 'C16'], scalar='avel::bit_width({0})')
op('bit_floor', 'v', 'v', 'avel::bit_floor({0})', lw(o_bit_floor), 'u', ['C06', 'C16'], scalar='avel::bit_floor({0})')
op('bit_ceil', 'v', 'v', 'avel::bit_ceil({0})', lw(o_bit_ceil), 'u', ['C06', 'C16'], scalar='avel::bit_ceil({0})')
op('has_single_bit', 'v', 'm', 'avel::has_single_bit({0})', lw(o_single_bit), I, ['C06', 'C16'], scalar='avel::has_single_bit({0})')
op('countl_sign', 'v', 'v', 'avel::countl_sign({0})', lw(o_cls), 'i', ['C06', 'C16'], scalar='avel::countl_sign({0})')
op('bit_width_i', 'v', 'v', 'avel::bit_width({0})', lw(o_bit_width), 'i', ['C06', 'C16'], scalar='avel::bit_width({0})',
   widths=lambda T: T.n == 1, note='signed bit_width exists only as a scalar overload / width-1')

# ---- C07
op('blend', 'mvv', 'v', 'avel::blend({0}, {1}, {2})', lw(o_blend), A, ['C07', 'C16'], scalar='avel::blend({0}, {1}, {2})')
op('keep', 'mv', 'v', 'avel::keep({0}, {1})', lw(o_keep), A, ['C07', 'C16'], scalar='avel::keep({0}, {1})')
op('clear', 'mv', 'v', 'avel::clear({0}, {1})', lw(o_clear), A, ['C07', 'C16'], scalar='avel::clear({0}, {1})')
op('min', 'vv', 'v', 'avel::min({0}, {1})', lw(o_min), I, ['C07', 'C16'], scalar='avel::min({0}, {1})')
op('max', 'vv', 'v', 'avel::max({0}, {1})', lw(o_max), I, ['C07', 'C16'], scalar='avel::max({0}, {1})')
op('minmax0', 'vv', 'v', 'avel::minmax({0}, {1})[0]', lw(o_min), I, ['C07', 'C16'], scalar='avel::minmax({0}, {1})[0]')
op('minmax1', 'vv', 'v', 'avel::minmax({0}, {1})[1]', lw(o_max), I, ['C07', 'C16'], scalar='avel::minmax({0}, {1})[1]')
op('clamp', 'vvv', 'v', 'avel::clamp({0}, {1}, {2})', lw(o_clamp), I, ['C07', 'C16'], pre=clamp_pre, scalar='avel::clamp({0}, {1}, {2})')
op('abs', 'v', 'v', 'avel::abs({0})', lw(o_abs), 'if', ['C07', 'C16'], scalar='avel::abs({0})')
op('neg_abs', 'v', 'v', 'avel::neg_abs({0})', lw(o_neg_abs), 'if', ['C07', 'C16'], scalar='avel::neg_abs({0})')
op('neg_abs_u', 'v', 'w', 'avel::neg_abs({0})', lw(o_neg_abs), 'u', ['C07', 'C16'], scalar='avel::neg_abs({0})')
op('negate', 'mv', 'v', 'avel::negate({0}, {1})', lw(o_negate), 'if', ['C07', 'C16'], scalar='avel::negate({0}, {1})')
op('average', 'vv', 'v', 'avel::average({0}, {1})', lw(o_average), I, ['C07', 'C16'], scalar='avel::average({0}, {1})')
op('midpoint', 'vv', 'v', 'avel::midpoint({0}, {1})', lw(o_midpoint), I, ['C07', 'C16'], scalar='avel::midpoint({0}, {1})')
op('copysign', 'vv', 'v', 'avel::copysign({0}, {1})', lw(o_copysign), F, ['C07', 'C16'], scalar='avel::copysign({0}, {1})')
nn2 = lambda T, i, a, b: nonnan(T, a[i], b[i])
nn3 = lambda T, i, a, b, c: b_and(nonnan(T, a[i], b[i], c[i]), lt(T, b[i], c[i]))
nn2.__name__, nn3.__name__ = 'nn2', 'nn3'
op('fmin_v', 'vv', 'v', 'avel::min({0}, {1})', lw(o_fmin), F, ['C07', 'C16'], lane_pre=nn2, cmp='oneof', scalar='avel::min({0}, {1})')
op('fmax_v', 'vv', 'v', 'avel::max({0}, {1})', lw(o_fmax), F, ['C07', 'C16'], lane_pre=nn2, cmp='oneof', scalar='avel::max({0}, {1})')
op('fminmax0', 'vv', 'v', 'avel::minmax({0}, {1})[0]', lw(o_fmin), F, ['C07'], lane_pre=nn2, cmp='oneof')
op('fminmax1', 'vv', 'v', 'avel::minmax({0}, {1})[1]', lw(o_fmax), F, ['C07'], lane_pre=nn2, cmp='oneof')
op('fclamp', 'vvv', 'v', 'avel::clamp({0}, {1}, {2})', lw(o_fclamp), F, ['C07', 'C16'], lane_pre=nn3, cmp='oneof', scalar='avel::clamp({0}, {1}, {2})')

# ---- C08 lane access (memory forms are in memops.py)
op('extract', 'v', 's', 'avel::extract<{K}>({0})', o_v_extract, A, ['C08'], consts=k_lane)
op('insert', 'vs', 'v', 'avel::insert<{K}>({0}, {1})', o_v_insert, A, ['C08'], consts=k_lane)
op('v_from_scalar', 's', 'v', '{V}{{{0}}}', o_v_bcast, A, ['C08'])
op('v_assign_scalar', 'vs', 'v', 'vf::assign({0}, {1})', lambda T, v, s: [s] * T.n, A, ['C08'])

# ---- C10
for nm, cx in (('fadd', '+'), ('fsub', '-'), ('fmul', '*'), ('fdiv', '/')):
    op(nm, 'vv', 'v', '{0} %s {1}' % cx, lw(f_arith(nm)), F, ['C10'], cmp='fp_arith')
    op(nm + '_assign', 'vv', 'v', 'vf::%s_assign({0}, {1})' % {'fadd': 'add', 'fsub': 'sub', 'fmul': 'mul', 'fdiv': 'div'}[nm],
       lw(f_arith(nm)), F, ['C10'], cmp='fp_arith')
op('fneg', 'v', 'v', '-{0}', lw(o_fneg), F, ['C10'], cmp='fp_arith')
op('fpos', 'v', 'v', '+{0}', lw(o_id), F, ['C10'])
op('f_pre_inc', 'v', 'v', 'vf::pre_inc({0})', lw(o_finc), F, ['C10'], cmp='fp_arith')
op('f_post_inc_new', 'v', 'v', 'vf::post_inc_new({0})', lw(o_finc), F, ['C10'], cmp='fp_arith')
op('f_post_inc_old', 'v', 'v', 'vf::post_inc_old({0})', lw(o_id), F, ['C10'])
op('f_pre_dec', 'v', 'v', 'vf::pre_dec({0})', lw(o_fdec), F, ['C10'], cmp='fp_arith')
op('f_post_dec_new', 'v', 'v', 'vf::post_dec_new({0})', lw(o_fdec), F, ['C10'], cmp='fp_arith')
op('f_post_dec_old', 'v', 'v', 'vf::post_dec_old({0})', lw(o_id), F, ['C10'])
op('sqrt', 'v', 'v', 'avel::sqrt({0})', lw(o_sqrt), F, ['C10', 'C16'], cmp='fp_arith', scalar='avel::sqrt({0})')

# ---- C11
for nm, f in (('ceil', o_ceil), ('floor', o_floor), ('trunc', o_trunc), ('round', o_round), ('nearbyint', o_nearbyint), ('rint', o_nearbyint)):
    op(nm, 'v', 'v', 'avel::%s({0})' % nm, lw(f), F, ['C11', 'C16'], cmp='fp_num', scalar='avel::%s({0})' % nm)

# ---- C12
op('frexp_m', 'v', 'v', 'vf::frexp_m({0})', lw(o_frexp_m), F, ['C12', 'C16'], cmp='fp_arith', scalar='vf::frexp_m_s({0})', rm='RNE')
op('frexp_e', 'v', 'x', 'vf::frexp_e({0})', lw(o_frexp_e), F, ['C12', 'C16'], lane_pre=frexp_e_lane_pre, scalar='vf::frexp_e_s({0})', rm='RNE')
op('ldexp', 'vx', 'v', 'avel::ldexp({0}, {1})', lw(o_ldexp), F, ['C12', 'C16'], cmp='fp_arith', scalar='avel::ldexp({0}, {1})', rm='RNE', slices=ldexp_slices, slices_cover=True)
op('scalbn', 'vx', 'v', 'avel::scalbn({0}, {1})', lw(o_ldexp), F, ['C12', 'C16'], cmp='fp_arith', scalar='avel::scalbn({0}, {1})', rm='RNE', slices=ldexp_slices, slices_cover=True)
op('ilogb', 'v', 'x', 'avel::ilogb({0})', lw(o_ilogb), F, ['C12', 'C16'], scalar='avel::ilogb({0})', rm='RNE')
op('logb', 'v', 'v', 'avel::logb({0})', lw(o_logb), F, ['C12', 'C16'], cmp='fp_num', scalar='avel::logb({0})', rm='RNE')
op('frac', 'v', 'v', 'avel::frac({0})', lw(o_frac), F, ['C12', 'C16'], cmp='fp_num', scalar='avel::frac({0})', rm='RNE')
op('fmax', 'vv', 'v', 'avel::fmax({0}, {1})', lw(o_cfmax), F, ['C12', 'C16'], cmp='oneof_nan', scalar='avel::fmax({0}, {1})', rm='RNE')
op('fmin', 'vv', 'v', 'avel::fmin({0}, {1})', lw(o_cfmin), F, ['C12', 'C16'], cmp='oneof_nan', scalar='avel::fmin({0}, {1})', rm='RNE')
# ---- C19 (API parity only: no value oracle; these are compiled and link-checked for every width, see special.api_parity)
op('fmod', 'vv', 'v', 'avel::fmod({0}, {1})', None, F, ['C19'])
op('frem', 'vv', 'v', '{0} % {1}', None, F, ['C19'])
op('frem_assign', 'vv', 'v', 'vf::rem_assign({0}, {1})', None, F, ['C19'])
op('fdim', 'vv', 'v', 'avel::fdim({0}, {1})', lw(o_fdim), F, ['C12', 'C16'], cmp='fp_num', lane_pre=fdim_lane_pre, scalar='avel::fdim({0}, {1})', rm='RNE')

# ---- C13
op('fpclassify', 'v', 'x', 'avel::fpclassify({0})', lw(o_fpclassify), F, ['C13', 'C16'], scalar='avel::fpclassify({0})')
for nm, f in (('isnan', o_isnan), ('isinf', o_isinf), ('isfinite', o_isfinite), ('isnormal', o_isnormal), ('signbit', o_signbit)):
    op(nm, 'v', 'm', 'avel::%s({0})' % nm, lw(f), F, ['C13', 'C16'], scalar='avel::%s({0})' % nm)
for nm, f in (('isgreater', o_isgreater), ('isgreaterequal', o_isgreaterequal), ('isless', o_isless),
              ('islessequal', o_islessequal), ('islessgreater', o_islessgreater), ('isunordered', o_isunordered)):
    op(nm, 'vv', 'm', 'avel::%s({0}, {1})' % nm, lw(f), F, ['C13', 'C16'], scalar='avel::%s({0}, {1})' % nm)



# ---- C16 mixed-signedness comparisons (scalar overloads only): compare the mathematical values
def mixed_cmp(pred, unsigned_first):
    def f(T, a, b):
        w = T.bits
        a = a[0] if isinstance(a, list) else a
        b = b[0] if isinstance(b, list) else b
        if unsigned_first:
            x, y = sym.zext(a, w, w + 1), sym.sext(b, w, w + 1)
        else:
            x, y = sym.sext(a, w, w + 1), sym.zext(b, w, w + 1)
        W2 = w + 1
        return {'equal': lambda: sym.eq(x, y, W2), 'not_equal': lambda: sym.ne(x, y, W2), 'less': lambda: sym.slt(x, y, W2),
                'less_equal': lambda: sym.sle(x, y, W2), 'greater': lambda: sym.sgt(x, y, W2), 'greater_equal': lambda: sym.sge(x, y, W2)}[pred]()
    f.__name__ = 'mixed_cmp_%s_%s' % (pred, 'us' if unsigned_first else 'su')
    return f


for _p in ('equal', 'not_equal', 'less', 'less_equal', 'greater', 'greater_equal'):
    op('cmp_%s_us' % _p, 'vw', 'b', None, mixed_cmp(_p, True), 'u', ['C16'], scalar='avel::cmp_%s({0}, {1})' % _p)
    op('cmp_%s_su' % _p, 'wv', 'b', None, mixed_cmp(_p, False), 'u', ['C16'], scalar='avel::cmp_%s({0}, {1})' % _p)


# =========================================================================== C17 conversions (pairs are discovered in the headers)
def o_convert(dst_bits, src_signed):
    def f(T, a):
        w = T.bits
        if dst_bits == w:
            return a
        if dst_bits < w:
            return sym.trunc(a, w, dst_bits)
        return sym.sext(a, w, dst_bits) if src_signed else sym.zext(a, w, dst_bits)
    f.__name__ = 'o_convert_%d_%s' % (dst_bits, 's' if src_signed else 'u')
    return f


def register_conversions(repo=None):
    import os, re
    from .avtypes import BY_NAME as TYPES
    repo = repo or os.environ.get('AVEL_REPO', '/repo')
    vdir = os.path.join(repo, 'include', 'avel', 'impl', 'vectors')
    pairs = set()
    for fn in sorted(os.listdir(vdir)):
        if fn.endswith('.hpp'):
            for m in re.finditer(r'convert<(\w+), (\w+)>\(', open(os.path.join(vdir, fn)).read()):
                pairs.add((m.group(1), m.group(2)))
    have = {o.name for o in OPS}
    for dst, src in sorted(pairs):
        is_mask = dst.startswith('mask')
        dn, sn = dst.replace('mask', 'vec'), src.replace('mask', 'vec')
        if dn not in TYPES or sn not in TYPES:
            continue
        D, S_ = TYPES[dn], TYPES[sn]
        if D.n != S_.n:
            continue
        if is_mask:
            forms = (('convert', 'avel::convert<avel::%s>({0})[0]' % dst), ('ctor', 'avel::%s{{{0}}}' % dst))
            for nm, ex in forms:
                name = '%s__%s__from__%s' % (nm, dst, src)
                if name not in have:
                    op(name, 'm', 'M:' + dn, ex, lw(o_m_id), 'uif', ['C17'], only_types={sn}, dst=dn)
        else:
            forms = (('convert', 'avel::convert<avel::%s>({0})[0]' % dst), ('ctor', 'avel::%s{{{0}}}' % dst))
            for nm, ex in forms:
                name = '%s__%s__from__%s' % (nm, dst, src)
                if name not in have:
                    op(name, 'v', 'V:' + dn, ex, lw(o_convert(D.bits, S_.signed)), 'uif', ['C17'], only_types={sn}, dst=dn)
        # bit_cast between types of identical representation
        if D.bits == S_.bits and dst != src:
            name = 'bit_cast__%s__from__%s' % (dst, src)
            if name not in have:
                if is_mask:
                    op(name, 'm', 'M:' + dn, 'avel::bit_cast<avel::%s>({0})' % dst, lw(o_m_id), 'uif', ['C17'], only_types={sn}, dst=dn)
                else:
                    op(name, 'v', 'V:' + dn, 'avel::bit_cast<avel::%s>({0})' % dst, lw(o_id), 'uif', ['C17'], only_types={sn}, dst=dn)
    # identity conversions of every type (the generic template)
    for tn, T in sorted(TYPES.items()):
        for is_mask in (False, True):
            name = 'convert_identity__%s%s' % ('mask' if is_mask else 'vec', tn[3:])
            if name in have:
                continue
            if is_mask:
                op(name, 'm', 'M:' + tn, 'avel::convert<avel::%s>({0})[0]' % T.mask, lw(o_m_id), 'uif', ['C17'], only_types={tn}, dst=tn)
            else:
                op(name, 'v', 'V:' + tn, 'avel::convert<avel::%s>({0})[0]' % tn, lw(o_id), 'uif', ['C17'], only_types={tn}, dst=tn)


register_conversions()
BY_NAME = {o.name: o for o in OPS}
