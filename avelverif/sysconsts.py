"""FP_* / FP_ILOGB* / INT_MAX as the system headers define them (read by compiling a tiny program once per build dir)."""
import json
import os
import subprocess

from . import build

SRC = r'''
#include <cmath>
#include <climits>
#include <cstdio>
int main() {
    std::printf("{\"FP_NAN\": %d, \"FP_INFINITE\": %d, \"FP_ZERO\": %d, \"FP_SUBNORMAL\": %d, \"FP_NORMAL\": %d, "
                "\"FP_ILOGB0\": %d, \"FP_ILOGBNAN\": %d, \"INT_MAX\": %d}\n",
                FP_NAN, FP_INFINITE, FP_ZERO, FP_SUBNORMAL, FP_NORMAL, FP_ILOGB0, FP_ILOGBNAN, INT_MAX);
}
'''


def load():
    os.makedirs(build.BUILD, exist_ok=True)
    cache = os.path.join(build.BUILD, 'sysconsts.json')
    if os.path.exists(cache):
        try:
            return json.load(open(cache))
        except Exception:
            pass
    src = os.path.join(build.BUILD, 'sysconsts.cpp')
    exe = os.path.join(build.BUILD, 'sysconsts.bin')
    open(src, 'w').write(SRC)
    subprocess.check_call(['clang++-14', '-std=c++17', src, '-o', exe])
    out = subprocess.check_output([exe], universal_newlines=True)
    d = json.loads(out)
    json.dump(d, open(cache, 'w'))
    return d
