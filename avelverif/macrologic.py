"""C19 (macro-logic clauses only): a symbolic model of the preprocessor conditionals in Capabilities.hpp,
Detect_capabilities.hpp, Verify_capabilities.hpp, Sizes.hpp and the include blocks of Vectors.hpp, decided by z3 over ALL
subsets of feature macros / compiler flags.  The oracle for 'what a macro depends on' is the compiler itself: the predefines
clang emits for the documented -m flag."""
import os
import re
import subprocess
import time
import json
import hashlib

import z3
from . import build, configs

IMPL = lambda: os.path.join(build.REPO, 'include', 'avel', 'impl')


# ------------------------------------------------------------------------------------------------ condition parser
TOK = re.compile(r'\s*(defined|\(|\)|&&|\|\||!=|==|<=|>=|<|>|!|[A-Za-z_]\w*|\d+[uUlL]*)')


class CondParser:
    def __init__(self, text, env):
        self.t = []
        i = 0
        text = text.strip()
        while i < len(text):
            m = TOK.match(text, i)
            if not m:
                raise ValueError('pp token? %r' % text[i:])
            self.t.append(m.group(1))
            i = m.end()
        self.i = 0
        self.env = env

    def peek(self):
        return self.t[self.i] if self.i < len(self.t) else None

    def nxt(self):
        v = self.t[self.i]
        self.i += 1
        return v

    def parse(self):
        r = self.or_()
        return r

    def or_(self):
        a = self.and_()
        while self.peek() == '||':
            self.nxt()
            a = z3.Or(a, self.and_())
        return a

    def and_(self):
        a = self.not_()
        while self.peek() == '&&':
            self.nxt()
            a = z3.And(a, self.not_())
        return a

    def not_(self):
        if self.peek() == '!':
            self.nxt()
            return z3.Not(self.not_())
        return self.cmp_()

    def cmp_(self):
        a = self.atom()
        if self.peek() in ('<=', '>=', '<', '>', '==', '!='):
            op = self.nxt()
            b = self.atom()
            # numeric comparisons (only __cplusplus bands occur): one boolean per distinct comparison text
            return self.env.opaque('%s %s %s' % (a, op, b))
        if isinstance(a, str):
            return self.env.opaque('value-of ' + a)
        return a

    def atom(self):
        t = self.nxt()
        if t == '(':
            r = self.or_()
            assert self.nxt() == ')'
            return r
        if t == 'defined':
            if self.peek() == '(':
                self.nxt()
                name = self.nxt()
                assert self.nxt() == ')'
            else:
                name = self.nxt()
            return self.env.defined(name)
        return t      # identifier or number used as a value


class Env:
    def __init__(self, defs):
        self.defs = dict(defs)
        self.opaques = {}

    def defined(self, name):
        if name not in self.defs:
            return z3.BoolVal(False)
        return self.defs[name]

    def opaque(self, text):
        text = ' '.join(text.split())
        if text not in self.opaques:
            self.opaques[text] = z3.Bool('pp:' + text)
        return self.opaques[text]


class PPModel:
    def __init__(self, env):
        self.env = env
        self.asserts = []        # (file, line, guard, message)
        self.includes = {}       # included file name -> guard
        self.constants = {}      # name -> [(guard, value)]
        self.errors = []

    def run_file(self, path, guard=None, depth=0):
        guard = guard if guard is not None else z3.BoolVal(True)
        stack = []      # (outer_guard, taken_so_far, current_cond)
        cur = guard
        lines = open(path).read().split('\n')
        i = 0
        fname = os.path.basename(path)
        while i < len(lines):
            line = lines[i]
            while line.rstrip().endswith('\\') and i + 1 < len(lines):
                i += 1
                line = line.rstrip()[:-1] + ' ' + lines[i]
            i += 1
            s = line.strip()
            s = re.sub(r'//.*$', '', s).strip()
            if not s:
                continue
            m = re.match(r'#\s*(\w+)\s*(.*)$', s)
            if m:
                d, rest = m.group(1), m.group(2).strip()
                if d in ('if', 'ifdef', 'ifndef'):
                    if d == 'ifdef':
                        c = self.env.defined(rest.split()[0])
                    elif d == 'ifndef':
                        c = z3.Not(self.env.defined(rest.split()[0]))
                    else:
                        c = CondParser(rest, self.env).parse()
                    stack.append((cur, c))
                    cur = z3.And(cur, c)
                elif d == 'elif':
                    outer, taken = stack.pop()
                    c = CondParser(rest, self.env).parse()
                    stack.append((outer, z3.Or(taken, c)))
                    cur = z3.And(outer, z3.Not(taken), c)
                elif d == 'else':
                    outer, taken = stack.pop()
                    stack.append((outer, z3.BoolVal(True)))
                    cur = z3.And(outer, z3.Not(taken))
                elif d == 'endif':
                    outer, taken = stack.pop()
                    cur = outer
                elif d == 'define':
                    name = rest.split()[0].split('(')[0]
                    old = self.env.defs.get(name, z3.BoolVal(False))
                    self.env.defs[name] = z3.simplify(z3.Or(old, cur))
                elif d == 'undef':
                    name = rest.split()[0]
                    old = self.env.defs.get(name, z3.BoolVal(False))
                    self.env.defs[name] = z3.simplify(z3.And(old, z3.Not(cur)))
                elif d == 'include':
                    mm = re.match(r'"([^"]+)"', rest)
                    if mm:
                        inc = mm.group(1)
                        base = os.path.basename(inc)
                        prev = self.includes.get(base, z3.BoolVal(False))
                        self.includes[base] = z3.Or(prev, cur)
                        full = os.path.join(os.path.dirname(path), inc)
                        if base in ('Detect_capabilities.hpp', 'Verify_capabilities.hpp') and os.path.exists(full) and depth < 3:
                            self.run_file(full, cur, depth + 1)
                continue
            if 'static_assert' in s and re.search(r'static_assert\s*\(\s*false', s):
                self.asserts.append((fname, i, cur, s[:120]))
            elif s.startswith('static_assert(') and i < len(lines) and re.match(r'\s*false\s*,', lines[i]):
                self.asserts.append((fname, i, cur, (s + lines[i].strip())[:120]))
            mm = re.match(r'constexpr\s+std::uint32_t\s+(\w+)\s*=\s*(\d+)\s*;', s)
            if mm:
                self.constants.setdefault(mm.group(1), []).append((cur, int(mm.group(2))))


# ------------------------------------------------------------------------------------------------ compiler predefine table
def predefines_for(flags):
    cmd = ['clang++-14', '-x', 'c++', '-dM', '-E'] + list(flags) + ['/dev/null']
    out = subprocess.run(cmd, stdout=subprocess.PIPE, stderr=subprocess.PIPE, universal_newlines=True).stdout
    return set(re.findall(r'#define (__\w+__)\b', out))


def avel_to_predef(m):
    return '__' + m[len('AVEL_'):] + '__'


def model(user, predef_expr, auto):
    """symbolic run of Capabilities.hpp with the given user-macro and predefine expressions -> PPModel"""
    defs = {}
    for m, e in user.items():
        defs[m] = e
    for p, e in predef_expr.items():
        defs[p] = e
    defs['__clang__'] = z3.BoolVal(True)
    defs['__GNUC__'] = z3.BoolVal(True)
    defs['AVEL_AUTO_DETECT'] = z3.BoolVal(bool(auto)) if isinstance(auto, bool) else auto
    env = Env(defs)
    pm = PPModel(env)
    pm.run_file(os.path.join(IMPL(), 'Capabilities.hpp'))
    pm.run_file(os.path.join(IMPL(), 'Sizes.hpp'))
    pm.run_file(os.path.join(IMPL(), 'vectors', 'Vectors.hpp'))
    return pm


TYPE_RX = re.compile(r'Vec(\d+)x(\d+)([uif])\.hpp')
FLAGGED = [m for m, f in configs.MFLAG.items() if f]


def documented_implications():
    """transitive closure of the 'implies' lattice in docs/Capabilities.md"""
    path = os.path.join(build.REPO, 'docs', 'Capabilities.md')
    direct = {}
    cur = None
    if os.path.exists(path):
        for line in open(path):
            m = re.match(r'^\* `(AVEL_\w+)`', line)
            if m:
                cur = m.group(1)
                direct.setdefault(cur, set())
                continue
            m = re.match(r'^\s+\* implies `(AVEL_\w+)`', line)
            if m and cur:
                direct[cur].add(m.group(1))
    closed = {}
    for a in direct:
        seen = set()
        st = list(direct[a])
        while st:
            x = st.pop()
            if x in seen:
                continue
            seen.add(x)
            st.extend(direct.get(x, ()))
        closed[a] = seen
    return closed


def check_all(tier, seed=0):
    """-> (obligations list of dict(name, status, detail, cex), stats)"""
    t0 = time.time()
    base = predefines_for([])
    table = {}
    for m in FLAGGED:
        table[m] = predefines_for(configs.MFLAG[m]) - base
    tested = set()
    for m in FLAGGED:
        tested.add(avel_to_predef(m))
    # additivity of compiler feature implication (assumption of the model), spot-checked
    add_checks = 0
    add_bad = []
    pairs = [(a, b) for i, a in enumerate(FLAGGED) for b in FLAGGED[i + 1:]]
    import random
    rnd = random.Random(seed)
    sample = pairs if tier == 'thorough' else rnd.sample(pairs, 12)
    for a, b in sample:
        got = predefines_for(configs.MFLAG[a] + configs.MFLAG[b]) - base
        want = table[a] | table[b]
        add_checks += 1
        if (got & tested) != (want & tested):
            add_bad.append((a, b, sorted((got ^ want) & tested)))
    user_macros = [m for m in FLAGGED if m != 'AVEL_SSE']      # AVEL_SSE is internal: "AVEL does not support SSE on its own"
    f = {m: z3.Bool('flag:' + m) for m in user_macros}
    predef = {}
    for p in sorted(tested):
        if p in base:
            predef[p] = z3.BoolVal(True)        # enabled by the x86-64 baseline without any flag
        else:
            predef[p] = z3.Or([f[m] for m in user_macros if p in table[m]] + [z3.BoolVal(False)])
    # explicit mode A: the user names some macros and passes exactly their documented flags
    pm_e = model({m: f[m] for m in user_macros}, predef, False)
    # explicit mode B: the user names every macro whose feature the compiler has enabled (what AUTO_DETECT is meant to equal)
    pm_full = model({m: predef[avel_to_predef(m)] for m in user_macros}, predef, False)
    pm_a = model({}, predef, True)
    documented = documented_implications()
    obls = []

    def decide(name, formula, what, kind):
        s = z3.Solver()
        s.set('timeout', 20000)
        s.add(formula)
        r = s.check()
        rec = {'name': name, 'what': what, 'kind': kind}
        if r == z3.unsat:
            rec['status'] = 'discharged'
        elif r == z3.sat:
            mdl = s.model()
            on = sorted(m for m in user_macros if z3.is_true(mdl.eval(f[m], model_completion=True)))
            rec['status'] = 'violated'
            rec['cex_macros'] = on
        else:
            rec['status'] = 'undecided'
        obls.append(rec)
        return rec

    # P1: naming one macro M (with its flag) defines every macro D that is BOTH documented as implied by M (docs/Capabilities.md,
    # transitively) AND brought along by the compiler for M's flag - the conservative reading of "everything it depends on"
    for m in user_macros:
        for d in sorted(documented.get(m, ())):
            if d not in FLAGGED or avel_to_predef(d) not in (table[m] | base):
                continue
            decide('P1:%s=>%s' % (m, d), z3.And(f[m], z3.Not(pm_e.env.defined(d))),
                   'naming %s (flag %s) does not define %s although the documentation and the compiler both imply it' % (m, ' '.join(configs.MFLAG[m]), d),
                   'implication')
    # P2: no static_assert(false) reachable when every named macro comes with its documented flag
    for fn, ln, g, msg in pm_e.asserts:
        decide('P2:%s:%d' % (fn, ln), g, 'explicit macros with matching flags: %s reachable' % msg, 'static_assert')
    for fn, ln, g, msg in pm_a.asserts:
        decide('P2auto:%s:%d' % (fn, ln), g, 'AVEL_AUTO_DETECT: %s reachable' % msg, 'static_assert')
    # P3 / P4: vector headers
    def exists(pm):
        ex = {}
        for inc, g in pm.includes.items():
            m = TYPE_RX.fullmatch(inc)
            if m:
                ex[(int(m.group(1)), int(m.group(2)), m.group(3))] = g
        return ex
    ex_e, ex_a, ex_f = exists(pm_e), exists(pm_a), exists(pm_full)
    for key in sorted(ex_e):
        n, bits, k = key
        tname = 'vec%dx%d%s' % key
        decide('P3:%s' % tname, z3.Xor(ex_f.get(key, z3.BoolVal(False)), ex_a.get(key, z3.BoolVal(False))),
               'AVEL_AUTO_DETECT and explicit macros disagree on whether %s exists' % tname, 'auto_detect')
        total = n * bits
        if n == 1:
            want = z3.BoolVal(True)
        elif total == 128:
            want = pm_e.env.defined('AVEL_SSE2')
        elif total == 256:
            want = pm_e.env.defined('AVEL_AVX2')
        elif bits in (8, 16):
            want = pm_e.env.defined('AVEL_AVX512BW')
        else:
            want = pm_e.env.defined('AVEL_AVX512F')
        decide('P4:%s' % tname, z3.Xor(ex_e[key], want), '%s does not exist exactly under its documented macro' % tname, 'width')
    # P5: natural_width / max_width name existing types; max_width is the widest existing one
    for cname, arms in sorted(pm_e.constants.items()):
        mm = re.fullmatch(r'(natural|max)_width_(\d+)([uif])', cname)
        if not mm:
            continue
        which, bits, k = mm.group(1), int(mm.group(2)), mm.group(3)
        cands = sorted(n for (n, b, kk) in ex_e if b == bits and kk == k)
        # exactly one arm is active
        for g, val in arms:
            if (val, bits, k) not in ex_e:
                decide('P5:%s=%d' % (cname, val), g, '%s = %d but no such vector type is ever provided' % (cname, val), 'alias')
                continue
            decide('P5:%s=%d:exists' % (cname, val), z3.And(g, z3.Not(ex_e[(val, bits, k)])),
                   '%s = %d although vec%dx%d%s is not provided in that configuration' % (cname, val, val, bits, k), 'alias')
            if which == 'max':
                wider = [ex_e[(n, bits, k)] for n in cands if n > val]
                if wider:
                    decide('P5:%s=%d:widest' % (cname, val), z3.And(g, z3.Or(wider)),
                           '%s = %d although a wider vector of that element type is provided' % (cname, val), 'alias')
    stats = {'flags': len(FLAGGED), 'predefines_tested': len(tested), 'additivity_checks': add_checks, 'additivity_mismatches': add_bad,
             'static_asserts_modelled': len(pm_e.asserts), 'vector_headers': len(ex_e), 'constants': len(pm_e.constants), 'wall_s': time.time() - t0,
             'opaque_conditions': sorted(pm_e.env.opaques)}
    return obls, stats


def replay_macro_cex(prop, rec):
    """native confirmation = the compiler: a translation unit with the counterexample's macros/flags and a static_assert on the
    clause.  Exit 1 when the violation reproduces."""
    from . import replay
    macros = rec.get('cex_macros', [])
    name = rec['name']
    flags = []
    for m in macros:
        flags += ['-D' + m] + configs.MFLAG.get(m, [])
    body = ['#include <avel/Avel.hpp>']
    kind = rec['kind']
    auto_flags = None
    if kind == 'implication':
        d = name.split('=>', 1)[1]
        body.append('#if !defined(%s)\n#error "%s not defined"\n#endif' % (d, d))
    elif kind == 'static_assert':
        if name.startswith('P2auto'):
            flags = ['-DAVEL_AUTO_DETECT'] + [x for m in macros for x in configs.MFLAG.get(m, [])]
    elif kind in ('width', 'auto_detect'):
        t = name.split(':', 1)[1]
        body.append('static_assert(sizeof(avel::%s) > 0, "type must exist");' % t)
        if kind == 'auto_detect':
            auto_flags = ['-DAVEL_AUTO_DETECT'] + [x for m in macros for x in configs.MFLAG.get(m, [])]
    elif kind == 'alias':
        mm = re.match(r'P5:(natural|max)_width_(\d+)([uif])', name)
        alias = 'vec%sx%s%s' % ('N' if mm.group(1) == 'natural' else 'M', mm.group(2), mm.group(3))
        body.append('static_assert(sizeof(avel::%s) > 0, "alias must name an existing type");' % alias)
        if ':widest' in name:
            body.append('// the alias exists but is not the widest provided type')
    body.append('int main() { return 0; }')
    h = hashlib.sha1((name + ' '.join(flags)).encode()).hexdigest()[:10]
    outdir = os.path.join(replay.REPLAYS, prop, 'macro.%s' % h)
    os.makedirs(outdir, exist_ok=True)
    open(os.path.join(outdir, 'repro.cpp'), 'w').write('\n'.join(body) + '\n')

    def compiles(fl):
        r = subprocess.run(['clang++-14', '-std=c++17', '-fsyntax-only', '-w', '-I' + build.repo_include()] + fl + [os.path.join(outdir, 'repro.cpp')],
                           stdout=subprocess.PIPE, stderr=subprocess.PIPE, universal_newlines=True)
        return r.returncode == 0, r.stderr[-300:]
    ok, err = compiles(flags)
    if kind == 'auto_detect':
        ok2, err2 = compiles(auto_flags)
        confirmed = ok != ok2
        detail = 'explicit macros: %s; AVEL_AUTO_DETECT: %s' % ('compiles' if ok else 'fails', 'compiles' if ok2 else 'fails')
    elif ':widest' in name:
        confirmed = False
        detail = 'not replayable by compilation alone'
    else:
        confirmed = not ok
        detail = 'compiles' if ok else err
    sh = os.path.join(outdir, 'run.sh')
    open(sh, 'w').write('#!/bin/sh\ncd "%s" && clang++-14 -std=c++17 -fsyntax-only -w -I%s %s repro.cpp && exit 0; exit 1\n' % (outdir, build.repo_include(), ' '.join(flags)))
    os.chmod(sh, 0o755)
    return confirmed, detail, sh, flags
