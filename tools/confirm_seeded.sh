#!/bin/sh
# usage: confirm_seeded.sh <src-dir with patch.diff demo.sh demo.cpp> <scratch-worktree>
# Confirms in a scratch worktree (never /repo): patch applies, suite passes with it, demo fails with it and passes without it.
S="$1"; W="$2"
cd "$W" || exit 2
git checkout -q -- include 2>/dev/null
sh "$S/demo.sh" "$W/include" > "$W/../confirm_clean_$(basename $W).log" 2>&1; RC_CLEAN=$?
git apply "$S/patch.diff" || { echo "APPLY-FAILED"; exit 1; }
sh "$S/demo.sh" "$W/include" > "$W/../confirm_mut_$(basename $W).log" 2>&1; RC_MUT=$?
SUITE=$(/verif/tools/build_and_test.sh "$W" 2>&1 | tail -1)
git checkout -q -- include
echo "clean_demo_rc=$RC_CLEAN mutated_demo_rc=$RC_MUT suite='$SUITE'"
tail -2 "$W/../confirm_mut_$(basename $W).log" | cut -c1-200
