#!/bin/sh
# usage: eval_seeded.sh <seeded-id> [extra avelcheck args]
# applies /verif/seeded/<id>/patch.diff to /repo, runs the registered quick check of the property it breaks, and always reverts.
ID="$1"; shift
D=/verif/seeded/$ID
PROP=${ID%%-*}
cd /repo || exit 2
git diff --quiet -- include || { echo "/repo has local changes; refusing"; exit 2; }
git apply "$D/patch.diff" || { echo "patch does not apply"; exit 2; }
cd /verif
bin/avelcheck --property "$PROP" --tier quick --no-evidence "$@" > "$D/check.log" 2>&1
RC=$?
git -C /repo checkout -- include
echo "seeded=$ID property=$PROP exit=$RC $(grep -c '^VIOLATION' $D/check.log) violation line(s)"
grep -A1 '^VIOLATION' "$D/check.log" | grep -v '^--' | head -4 | cut -c1-300
tail -1 "$D/check.log" | cut -c1-250
exit 0
