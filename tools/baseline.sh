#!/bin/sh
# rebuilds and runs the repository's pinned test suite (guard off; no hooks exist). The suite's build does not track the
# AVEL headers as dependencies, so the test sources are touched first.
cd /repo || exit 2
find tests -name '*.cpp' -exec touch {} +
cmake --build _build > /tmp/avel_baseline_build.log 2>&1 || { tail -20 /tmp/avel_baseline_build.log; exit 1; }
./_build/tests/AVEL_TESTS | tail -3
