#!/bin/sh
# usage: intake_seeded.sh <Cnn> <mK>   copies /tmp/mut/out-Cnn into /verif/seeded/Cnn-mK and confirms it in the scratch worktree /tmp/mut/wt-Cnn
P="$1"; ID="$1-$2"; D=/verif/seeded/$ID
mkdir -p "$D"
for f in patch.diff demo.cpp demo.sh notes.md; do cp "/tmp/mut/out-$P/$f" "$D/" || exit 2; done
git -C "/tmp/mut/wt-$P" checkout -q -- include
/verif/tools/confirm_seeded.sh "$D" "/tmp/mut/wt-$P" | tee "$D/confirm.log"
