#!/bin/sh
# usage: build_and_test.sh <scratch-worktree>   builds the pinned suite (no feature macro, as the baseline does) and prints the gtest summary as last line.
# A fresh `git worktree add` has an empty external/googletest: link /repo's copy first (ln -sfn /repo/external/googletest <wt>/external/googletest after rmdir).
W="$1"
cmake -G Ninja -S "$W" -B "$W/_build" -DCMAKE_BUILD_TYPE=RelWithDebInfo -DAVEL_BUILD_TESTS=ON > "$W/_build.log" 2>&1 || { echo "CMAKE-FAILED"; exit 2; }
cmake --build "$W/_build" -j4 >> "$W/_build.log" 2>&1 || { echo "BUILD-FAILED"; exit 2; }
"$W/_build/tests/AVEL_TESTS" 2>&1 | grep -E "PASSED|FAILED" | head -3 | tr '\n' ' '
echo
