#!/usr/bin/env python3
"""Completes seeded/<id>/meta.json from notes.md + check.log and prints the markdown table used in DESIGN.md.
Never touches /repo."""
import glob
import json
import os
import re
import sys

ROOT = os.path.dirname(os.path.dirname(os.path.abspath(__file__)))


def section(notes, pats):
    lines = notes.split('\n')
    for i, l in enumerate(lines):
        if l.startswith('#') and any(re.search(p, l, re.I) for p in pats):
            out = []
            for m in lines[i + 1:]:
                if m.startswith('#'):
                    break
                out.append(m)
            t = '\n'.join(out).strip()
            if t:
                return t
    return None


def main():
    rows = []
    for d in sorted(glob.glob(os.path.join(ROOT, 'seeded', 'C*-m*'))):
        sid = os.path.basename(d)
        mp = os.path.join(d, 'meta.json')
        meta = json.load(open(mp)) if os.path.exists(mp) else {}
        notes = open(os.path.join(d, 'notes.md')).read() if os.path.exists(os.path.join(d, 'notes.md')) else ''
        title = notes.split('\n', 1)[0].lstrip('# ').strip()
        title = re.sub(r'^C\d\d\s*[/ ]?\s*mutant\s*\d\s*[-—:]+\s*', '', title)
        needs = section(notes, [r'need', r'manifest', r'trigger']) or ''
        needs = re.sub(r'\s+', ' ', needs)[:900]
        files = sorted(set(re.findall(r'^\+\+\+ b/(\S+)', open(os.path.join(d, 'patch.diff')).read(), re.M)))
        log = os.path.join(d, 'check.log')
        det = {'checked': False}
        if os.path.exists(log):
            txt = open(log).read()
            v = re.findall(r'^VIOLATION property=(\S+) replay=(\S+)', txt, re.M)
            first = re.search(r'^VIOLATION.*\n\s+(.*)', txt, re.M)
            det = {'checked': True, 'violation_lines': len(v), 'detected': bool(v),
                   'first': (first.group(1)[:300] if first else None),
                   'summary': (txt.strip().split('\n')[-1][:300] if txt.strip() else None)}
        meta.update({
            'id': sid,
            'property': sid.split('-')[0],
            'breaks': title,
            'files': files,
            'needs_to_manifest': needs,
            'confirmed': 'tools/confirm_seeded.sh in a scratch worktree outside /repo and /verif: patch applies on the fixed tree, the pinned suite '
                         'still prints "[  PASSED  ] 1459 tests.", demo.sh exits 1 with the patch and 0 without it',
            'ran': 'tools/eval_seeded.sh %s  (git -C /repo apply patch.diff; bin/avelcheck --property %s --tier quick --no-evidence; '
                   'git -C /repo checkout -- include); output kept in check.log' % (sid, meta.get('checked_with', sid.split('-')[0])),
            'detection': det,
        })
        meta.pop('status', None)
        json.dump(meta, open(mp, 'w'), indent=1)
        rows.append(meta)
    print('| id | change | registered quick check | first report |')
    print('|---|---|---|---|')
    for m in rows:
        d = m['detection']
        res = 'not run' if not d.get('checked') else ('**caught** (%d VIOLATION line(s))' % d['violation_lines'] if d['detected'] else 'MISSED')
        first = (d.get('first') or '').split('  inputs=')[0][:110].replace('|', '/')
        print('| %s | %s | %s | %s |' % (m['id'], m['breaks'].replace('|', '/')[:120], res, first))
    return 0


if __name__ == '__main__':
    sys.exit(main())
