import time, sys
from z3 import *
def T(name, s, timeout=120000):
    s.set('timeout', timeout)
    t=time.time(); r=s.check(); print(name, r, '%.2fs'%(time.time()-t)); sys.stdout.flush()
    return r
# 1. mul64 via partial products
a,b=BitVecs('a b',64)
M=BitVecVal(0xffffffff,64)
lo=(a&M)*(b&M)
t7=LShR(b,32)*(a&M)
t9=(b&M)*LShR(a,32)
s32=Extract(31,0,t7)+Extract(31,0,t9)   # low lanes
s32h=Extract(63,32,t7)+Extract(63,32,t9)
v13=Concat(s32h,s32)
v14=v13<<32
r=Concat(Extract(63,32,v14)+Extract(63,32,lo), Extract(31,0,v14)+Extract(31,0,lo))
s=Solver(); s.add(r!=a*b); T('mul64 z3 default', s, 60000)
