#include <avel/Avel.hpp>
#include <cstdio>
#include <cmath>
#include <cfenv>
#include <cstring>
using namespace avel;
int main(){
  { float z=0.0f; auto r=-vec4x32f{z}; printf("C10 -(+0.0f) signbit=%d (expect 1)\n", std::signbit(extract<0>(r))); }
  { double z=0.0; auto r=-vec2x64f{z}; printf("C10 -(+0.0) signbit=%d (expect 1)\n", std::signbit(extract<0>(r))); }
#if defined(AVEL_AVX2)
  { float n=NAN; printf("C02 vec8x32f NaN != 0 -> %d (expect 1)\n",(int)extract<0>(vec8x32f{n}!=vec8x32f{0.0f})); }
  { double n=NAN; printf("C02 vec4x64f NaN != 0 -> %d (expect 1)\n",(int)extract<0>(vec4x64f{n}!=vec4x64f{0.0})); }
  { std::fesetround(FE_DOWNWARD); std::uint64_t b=0xbdf0000000000000ull; double x; std::memcpy(&x,&b,8); volatile double vx=x;
    printf("C11 nearbyint(%g) FE_DOWNWARD vec4x64f=%g std=%g\n",x,extract<0>(nearbyint(vec4x64f{vx})),std::nearbyint(vx)); std::fesetround(FE_TONEAREST);}
#endif
  { printf("C12 fdim(inf,inf) vec4x32f=%g std=%g\n", extract<0>(fdim(vec4x32f{INFINITY},vec4x32f{INFINITY})), std::fdim(INFINITY,INFINITY)); }
}
