#include <avel/Avel.hpp>
using namespace avel;
#define W extern "C" __attribute__((noinline))
W __m128i w_add(__m128i a, __m128i b){ return decay(vec4x32u{a} + vec4x32u{b}); }
W __m128i w_mul(__m128i a, __m128i b){ return decay(vec4x32u{a} * vec4x32u{b}); }
W __m128i w_lt(__m128i a, __m128i b){ return decay(set_bits(vec4x32u{a} < vec4x32u{b})); }
W __m128i w_shlv(__m128i a, __m128i b){ return decay(vec4x32u{a} << vec4x32u{b}); }
W __m128i w_shl(__m128i a, long long b){ return decay(vec4x32u{a} << b); }
W __m128i w_div(__m128i a, __m128i b){ return decay(div(vec4x32u{a}, vec4x32u{b}).quot); }
W __m128i w_clz(__m128i a){ return decay(countl_zero(vec4x32u{a})); }
W __m128i w_popcnt(__m128i a){ return decay(popcount(vec4x32u{a})); }
W __m128i w_load(const std::uint32_t* p, std::uint32_t n){ return decay(load<vec4x32u>(p, n)); }
W void w_store(std::uint32_t* p, __m128i a, std::uint32_t n){ store(p, vec4x32u{a}, n); }
W __m128 w_ceil(__m128 a){ return decay(ceil(vec4x32f{a})); }
W __m128 w_ldexp(__m128 a, __m128i e){ return decay(ldexp(vec4x32f{a}, vec4x32i{e})); }
W __m128i w_mul64(__m128i a, __m128i b){ return decay(vec2x64u{a} * vec2x64u{b}); }
