import time, sys
from z3 import *
W=32
x,y=BitVecs('x y',W)
D=Float64()
fx=fpToFP(RNE(),ZeroExt(1,x),D)  # signed conversion of 33-bit = unsigned
fy=fpToFP(RNE(),ZeroExt(1,y),D)
q=fpToUBV(RTZ(),fpDiv(RNE(),fx,fy),BitVecSort(32))
s=Solver(); s.set('timeout',int(sys.argv[1])*1000)
s.add(y!=0)
if len(sys.argv)>2:
    B=int(sys.argv[2]); s.add(ULT(x,1<<B)); s.add(ULT(y,1<<B))
s.add(q!=UDiv(x,y))
t=time.time(); print('fpdiv32',sys.argv[1:],s.check(),'%.2f'%(time.time()-t))
