#include <avel/Avel.hpp>
#include <avel/Aligned_allocator.hpp>
#include <avel/Cache.hpp>
using namespace avel;
#define W extern "C" __attribute__((noinline))
W std::uint32_t* w_alloc(std::size_t n){ Aligned_allocator<std::uint32_t,64> a; return a.allocate(n); }
W void w_dealloc(std::uint32_t* p, std::size_t n){ Aligned_allocator<std::uint32_t,64> a; a.deallocate(p,n); }
W void w_pf(const void* p, std::size_t n){ prefetch_read<L2_CACHE>(p,n); }
W void w_pfw(const double* p, std::size_t n){ prefetch_write<L1_CACHE,double>(p,n); }
