#!/usr/bin/env python3
# Throw-away spike #2: run the spike interpreter over a whole generated wrapper module
# (integer vector API, all widths) and collect verdict/time statistics.
import re, sys, time, os, json, multiprocessing as mp
from z3 import *
import spike
from spike import BV, F, T, Ty, parse_type, tokenize

class Unsupported(Exception): pass

GLOBALS={}
def parse_globals(text):
    for m in re.finditer(r'^(@[\w.$]+) = [^\n]*? constant \[(\d+) x i8\] c"((?:[^"\\]|\\[0-9A-Fa-f]{2})*)"',text,flags=re.M):
        raw=m.group(3); by=[]; i=0
        while i<len(raw):
            if raw[i]=='\\': by.append(int(raw[i+1:i+3],16)); i+=3
            else: by.append(ord(raw[i])); i+=1
        GLOBALS[m.group(1)]=by

def lanes_of(v): return [x for x,_ in v]
def pz(v): return [p for _,p in v]
def ORp(*ps):
    ps=[p for p in ps if not is_false(p)]
    if not ps: return F
    return ps[0] if len(ps)==1 else Or(ps)

def regroup(vals, w1, w2):
    """vals: list of (bv,poison) lanes of width w1 -> lanes of width w2 (little endian)"""
    if w1==w2: return list(vals)
    tot=Concat(*[x for x,_ in reversed(vals)]) if len(vals)>1 else vals[0][0]
    n2=tot.size()//w2; out=[]
    for i in range(n2):
        lo=i*w2; hi=lo+w2-1
        ps=[vals[j][1] for j in range(len(vals)) if not (j*w1+w1-1<lo or j*w1>hi)]
        out.append((simplify(Extract(hi,lo,tot)), ORp(*ps)))
    return out

def sat_s(x, wout):   # signed saturate
    w=x.size(); mx=BV((1<<(wout-1))-1,w); mn=BV(-(1<<(wout-1)),w)
    return Extract(wout-1,0, If(x>mx,mx,If(x<mn,mn,x)))
def sat_u_from_s(x, wout):  # signed input -> unsigned saturate
    w=x.size(); mx=BV((1<<wout)-1,w)
    return Extract(wout-1,0, If(x<0,BV(0,w),If(x>mx,mx,x)))

def hooks(ex,callee,rty,args):
    A=[a for _,a in args]; TY=[t for t,_ in args]
    if callee=='__load': raise Unsupported('load')
    m=re.search(r'\.(psll|psrl|psra)\.([wdq])(\.\d+)?$',callee)
    if m and 'llvm.x86' in callee:
        a,c=A; w=TY[0].lbits()
        cnt=regroup(c,TY[1].lbits(),64)[0]; cnt64,pc_=cnt
        out=[]
        for x,px in a:
            sh=Extract(w-1,0,cnt64) if w<64 else cnt64; big=UGE(cnt64,w)
            r={'psll':If(big,BV(0,w),x<<sh),'psrl':If(big,BV(0,w),LShR(x,sh)),'psra':If(big,x>>(w-1),x>>sh)}[m.group(1)]
            out.append((r,ORp(px,pc_)))
        return out
    m=re.search(r'\.(psllv|psrlv|psrav)\.([wdq])(\.\d+)?$',callee)
    if m:
        a,c=A; w=TY[0].lbits(); out=[]
        for (x,px),(s,ps) in zip(a,c):
            big=UGE(s,w)
            r={'psllv':If(big,BV(0,w),x<<s),'psrlv':If(big,BV(0,w),LShR(x,s)),'psrav':If(big,x>>(w-1),x>>s)}[m.group(1)]
            out.append((r,ORp(px,ps)))
        return out
    if 'pshuf.b' in callee:
        a,b=A; out=[]
        for i,(idx,pi) in enumerate(b):
            base=(i//16)*16; r=BV(0,8); pr=pi
            sel=Extract(3,0,idx)
            val=a[base][0]
            for k in range(1,16): val=If(sel==k,a[base+k][0],val)
            out.append((If(Extract(7,7,idx)==1,BV(0,8),val), ORp(pi,*[a[base+k][1] for k in range(16)])))
        return out
    m=re.search(r'\.(packuswb|packusdw|packsswb|packssdw)',callee)
    if m:
        a,b=A; w=TY[0].lbits(); wo=w//2; per=128//w; out=[]
        f=sat_u_from_s if m.group(1).startswith('packus') else sat_s
        for blk in range(len(a)//per):
            for src in (a,b):
                for k in range(per):
                    x,p=src[blk*per+k]; out.append((f(x,wo),p))
        return out
    m=re.search(r'\.pavg\.([bw])',callee)
    if m:
        a,b=A; w=TY[0].lbits()
        return [(Extract(w,1,ZeroExt(1,x)+ZeroExt(1,y)+1),ORp(px,py)) for (x,px),(y,py) in zip(a,b)]
    m=re.search(r'\.pternlog\.([dq])',callee)
    if m:
        a,b,c,imm=A; k=simplify(imm[0][0]).as_long(); out=[]
        for (x,px),(y,py),(z,pz_) in zip(a,b,c):
            w=x.size(); r=BV(0,w)
            for mt in range(8):
                if k>>mt&1:
                    t=(x if mt&4 else ~x)&(y if mt&2 else ~y)&(z if mt&1 else ~z); r=r|t
            out.append((r,ORp(px,py,pz_)))
        return out
    if 'pmadd.ub.sw' in callee or 'pmaddubs.w' in callee:
        a,b=A; out=[]
        for i in range(0,len(a),2):
            t0=ZeroExt(24,a[i][0])*SignExt(24,b[i][0]); t1=ZeroExt(24,a[i+1][0])*SignExt(24,b[i+1][0])
            out.append((sat_s(t0+t1,16),ORp(a[i][1],b[i][1],a[i+1][1],b[i+1][1])))
        return out
    m=re.match(r'llvm\.(fshl|fshr)\.',callee)
    if m:
        a,b,s=A; out=[]
        for (x,px),(y,py),(n,pn) in zip(a,b,s):
            w=x.size(); nn=URem(n,BV(w,w)); cat=Concat(x,y)
            if m.group(1)=='fshl': r=Extract(2*w-1,w,cat<<ZeroExt(w,nn))
            else: r=Extract(w-1,0,LShR(cat,ZeroExt(w,nn)))
            out.append((r,ORp(px,py,pn)))
        return out
    m=re.match(r'llvm\.(ctlz|cttz)\.',callee)
    if m:
        a,zp=A; zpoison=simplify(zp[0][0]).as_long(); out=[]
        for x,px in a:
            w=x.size(); r=BV(w,w)
            rng=range(w) if m.group(1)=='ctlz' else range(w-1,-1,-1)
            for i in rng: r=If(Extract(i,i,x)==1,BV(w-1-i if m.group(1)=='ctlz' else i,w),r)
            out.append((r,ORp(px,x==0) if zpoison else px))
        return out
    if callee.startswith('llvm.ctpop.'):
        out=[]
        for x,px in A[0]:
            w=x.size(); r=BV(0,w)
            for i in range(w): r=r+ZeroExt(w-1,Extract(i,i,x))
            out.append((r,px))
        return out
    if callee.startswith('llvm.abs.'):
        a,mp_=A; mpz=simplify(mp_[0][0]).as_long()
        return [(If(x<0,-x,x), ORp(px, x==BV(1<<(x.size()-1),x.size())) if mpz else px) for x,px in a]
    m=re.match(r'llvm\.(umin|umax|smin|smax)\.',callee)
    if m:
        f={'umin':lambda x,y:If(ULT(x,y),x,y),'umax':lambda x,y:If(UGT(x,y),x,y),'smin':lambda x,y:If(x<y,x,y),'smax':lambda x,y:If(x>y,x,y)}[m.group(1)]
        return [(f(x,y),ORp(px,py)) for (x,px),(y,py) in zip(*A)]
    if callee.startswith('llvm.bswap.'):
        out=[]
        for x,px in A[0]:
            w=x.size(); out.append((Concat(*[Extract(8*i+7,8*i,x) for i in range(w//8)]),px))
        return out
    m=re.match(r'llvm\.(usub|uadd|ssub|sadd)\.sat',callee)
    if m:
        out=[]
        for (x,px),(y,py) in zip(*A):
            w=x.size()
            if m.group(1)=='usub': r=If(UGE(x,y),x-y,BV(0,w))
            elif m.group(1)=='uadd': r=If(ULT(x+y,x),BV(-1,w),x+y)
            else: raise Unsupported(callee)
            out.append((r,ORp(px,py)))
        return out
    raise Unsupported(callee)

# patch executor for loads from constant globals and unsupported ops
_orig_step=spike.Exec.step
def step(s,fn,lab,pred,pc,env,op,tok,line):
    base=op.split()[0]
    if base=='load':
        m=re.search(r'load <(\d+) x i8>, <\d+ x i8>\* bitcast \(\[\d+ x i8\]\* (@[\w.$]+) to',line)
        if m and m.group(2) in GLOBALS:
            return [(BV(b,8),F) for b in GLOBALS[m.group(2)][:int(m.group(1))]]
        raise Unsupported('load')
    if base in('fadd','fsub','fmul','fdiv','fcmp','sitofp','uitofp','fptosi','fptoui','fpext','fptrunc','store','alloca','fneg'):
        raise Unsupported(base)
    try:
        return _orig_step(s,fn,lab,pred,pc,env,op,tok,line)
    except (KeyError,AssertionError,IndexError) as e:
        raise Unsupported('parse/%s: %s'%(base,type(e).__name__))
spike.Exec.step=step
# no feasibility solver calls at branches: fork blindly
def run_block_nofeas(): pass

# ---------------- oracles ----------------
def clz(x):
    w=x.size(); r=BV(w,w)
    for i in range(w): r=If(Extract(i,i,x)==1,BV(w-1-i,w),r)
    return r
def ctz(x):
    w=x.size(); r=BV(w,w)
    for i in range(w-1,-1,-1): r=If(Extract(i,i,x)==1,BV(i,w),r)
    return r
def popc(x):
    w=x.size(); r=BV(0,w)
    for i in range(w): r=r+ZeroExt(w-1,Extract(i,i,x))
    return r
def oracle(op,signed,B):
    """returns (nargs, f(x[,y]) -> expected, domain(x[,y]) -> list of constraints)"""
    nodom=lambda *a:[]
    shdom=lambda x,y:[ULE(y,B)]
    if op=='b0': return 2,lambda x,y:x+y,nodom
    if op=='b1': return 2,lambda x,y:x-y,nodom
    if op=='b2': return 2,lambda x,y:x*y,nodom
    if op=='b3': return 2,lambda x,y:x&y,nodom
    if op=='b4': return 2,lambda x,y:x|y,nodom
    if op=='b5': return 2,lambda x,y:x^y,nodom
    if op=='b6': return 2,lambda x,y:If(UGE(y,B),BV(0,B),x<<y),shdom
    if op=='b7': return 2,(lambda x,y:If(UGE(y,B),x>>(B-1),x>>y)) if signed else (lambda x,y:If(UGE(y,B),BV(0,B),LShR(x,y))),shdom
    if op=='b8':
        if signed: return 2,lambda x,y:x/y,lambda x,y:[y!=0,Not(And(x==BV(1<<(B-1),B),y==BV(-1,B)))]
        return 2,lambda x,y:UDiv(x,y),lambda x,y:[y!=0]
    if op=='b9':
        if signed: return 2,lambda x,y:SRem(x,y),lambda x,y:[y!=0,Not(And(x==BV(1<<(B-1),B),y==BV(-1,B)))]
        return 2,lambda x,y:URem(x,y),lambda x,y:[y!=0]
    if op=='min': return 2,(lambda x,y:If(y<x,y,x)) if signed else (lambda x,y:If(ULT(y,x),y,x)),nodom
    if op=='max': return 2,(lambda x,y:If(x<y,y,x)) if signed else (lambda x,y:If(ULT(x,y),y,x)),nodom
    if op=='average':
        if signed: return 2,lambda x,y:Extract(B-1,0,(SignExt(1,x)+SignExt(1,y))/BV(2,B+1)),nodom
        return 2,lambda x,y:Extract(B,1,ZeroExt(1,x)+ZeroExt(1,y)),nodom
    if op=='midpoint':
        # std::midpoint: a + (b-a)/2 rounding toward a
        if signed:
            def f(x,y):
                X=SignExt(1,x); Y=SignExt(1,y); d=Y-X; return Extract(B-1,0,X+d/BV(2,B+1))
            return 2,f,nodom
        def g(x,y):
            X=ZeroExt(2,x); Y=ZeroExt(2,y); d=Y-X; return Extract(B-1,0,X+d/BV(2,B+2))
        return 2,g,nodom
    if op=='popcount': return 1,popc,nodom
    if op=='countl_zero': return 1,clz,nodom
    if op=='countr_zero': return 1,ctz,nodom
    if op=='byteswap': return 1,lambda x:Concat(*[Extract(8*i+7,8*i,x) for i in range(B//8)]) if B>8 else x,nodom
    if op=='bit_width': return 1,lambda x:BV(B,B)-clz(x),nodom
    if op=='bit_floor': return 1,lambda x:If(x==0,BV(0,B),BV(1,B)<<(BV(B-1,B)-clz(x))),nodom
    if op=='bit_ceil': return 1,lambda x:If(ULE(x,1),BV(1,B),If(UGT(x,BV(1<<(B-1),B)),BV(0,B),BV(1,B)<<(BV(B,B)-clz(x-1)))),nodom
    m=re.match(r'bsl(\d+)$',op)
    if m:
        S=int(m.group(1)); return 1,(lambda x:BV(0,B) if S>=B else x<<S),nodom
    m=re.match(r'rotl(\d+)$',op)
    if m:
        S=int(m.group(1))%B; return 1,lambda x:RotateLeft(x,S),nodom
    return None

def do_one(job):
    text_path,fname,timeout=job
    global FNS
    m=re.match(r'w_vec(\d+)x(\d+)([ui])_(\w+)$',fname); N=int(m.group(1)); B=int(m.group(2)); signed=m.group(3)=='i'; op=m.group(4)
    orc=oracle(op,signed,B)
    if orc is None: return (fname,'no-oracle',0,0,'')
    nargs,f,dom=orc
    fn=FNS[fname]
    ins=[[BitVec('%s%d'%('ab'[k],i),B) for i in range(N)] for k in range(nargs)]
    args=[]
    for k,(an,aty) in enumerate(fn.args):
        args.append(regroup([(x,F) for x in ins[k]],B,aty.lbits()))
    t0=time.time()
    try:
        ex=spike.Exec(FNS); paths=ex.run(fname,args,hooks)
    except Unsupported as e:
        return (fname,'unsupported',0,0,str(e))
    except Exception as e:
        return (fname,'error',0,0,'%s: %s'%(type(e).__name__,str(e)[:80]))
    texec=time.time()-t0
    # merge paths
    bad=[]
    doms=[]
    for i in range(N):
        doms+= dom(*[ins[k][i] for k in range(nargs)])
    for pc,ret in paths:
        out=regroup(ret,fn.ret.lbits(),B)
        lane_bad=[]
        for i,(g,p) in enumerate(out):
            exp=f(*[ins[k][i] for k in range(nargs)])
            # per-lane domain: only assert lanes whose own domain holds
            d=dom(*[ins[k][i] for k in range(nargs)])
            cond=Or(p, g!=exp)
            lane_bad.append(And(*(d+[cond])) if d else cond)
        bad.append(And(*(pc+[Or(lane_bad)])) if pc else Or(lane_bad))
    s=Solver(); s.set('timeout',timeout*1000)
    # shift-amount domains must hold for all lanes (documented precondition), division domains are per lane
    if op in('b6','b7'): s.add(doms)
    s.add(Or(bad))
    t1=time.time(); r=s.check()
    info=''
    if r==unknown and os.environ.get('PERLANE'):
        # retry lane by lane
        r=unsat
        for i in range(N):
            s2=Solver(); s2.set('timeout',timeout*1000)
            if op in('b6','b7'): s2.add(doms)
            lb=[]
            for pc,ret in paths:
                out=regroup(ret,fn.ret.lbits(),B); g,p=out[i]
                exp=f(*[ins[k][i] for k in range(nargs)]); d=dom(*[ins[k][i] for k in range(nargs)])
                lb.append(And(*(pc+d+[Or(p,g!=exp)])))
            s2.add(Or(lb)); rr=s2.check()
            if rr!=unsat: r=rr; s=s2; info='lane%d '%i; break
        info+='perlane '
    tsolve=time.time()-t1
    if r==sat:
        mdl=s.model(); info=' '.join('%s=%s'%(d.name(),hex(mdl[d].as_long())) for d in sorted(mdl.decls(),key=lambda d:d.name())[:6])
    return (fname,str(r),round(texec,3),round(tsolve,3),info+' paths=%d'%len(paths))

class _NoSolver:
    def add(self,*a): pass
    def check(self): return sat
def init(path):
    global FNS
    spike.Solver=_NoSolver
    text=open(path).read(); parse_globals(text); FNS=spike.parse_module(text)

# fork blindly (no feasibility queries): monkeypatch br handling by disabling Solver check
if __name__=='__main__':
    path=sys.argv[1]; timeout=int(sys.argv[2]); pat=sys.argv[3] if len(sys.argv)>3 else '.'
    init(path)
    names=[n for n in FNS if n.startswith('w_') and re.search(pat,n)]
    with mp.Pool(14,initializer=init,initargs=(path,)) as pool:
        res=pool.map(do_one,[(path,n,timeout) for n in names],chunksize=4)
    import collections
    c=collections.Counter(r[1] for r in res); print(c)
    json.dump(res,open(sys.argv[4] if len(sys.argv)>4 else 'spike2_results.json','w'),indent=0)
    for r in res:
        if r[1] not in('unsat',): print(r)
    ts=sorted(res,key=lambda r:-(r[2]+r[3]))[:15]
    print('slowest:',[(r[0],r[1],r[2],r[3]) for r in ts])
    print('total exec %.1f solve %.1f'%(sum(r[2] for r in res),sum(r[3] for r in res)))
