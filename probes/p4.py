import time, sys, subprocess
from z3 import *
W=int(sys.argv[1])
def inv(x0,y,q,xc,k):
    c=[ZeroExt(W,q)*ZeroExt(W,y)+ZeroExt(W,xc)==ZeroExt(W,x0)]
    if k<W:
        c.append(q & BitVecVal((1<<k)-1,W)==0); c.append(ULT(LShR(xc,k),y))
    else:
        c.append(q==0); c.append(y!=0)
    return And(c)
tot=0
for i in (W-1, W//2, 3, 0):
    x0,y,q,xc=BitVecs('x0 y q xc',W)
    b=UGE(LShR(xc,i),y)
    xc2=xc-If(b,y<<i,BitVecVal(0,W)); q2=q|(If(b,BitVecVal(1,W),BitVecVal(0,W))<<i)
    s=Solver(); s.set('timeout',60000)
    s.add(inv(x0,y,q,xc,i+1)); s.add(Not(inv(x0,y,q2,xc2,i)))
    t=time.time(); r=s.check(); print(W,i,'z3',r,'%.2f'%(time.time()-t)); sys.stdout.flush()
    open('step.smt2','w').write('(set-logic QF_BV)\n'+s.to_smt2())
    t=time.time()
    try:
        out=subprocess.run(['cvc5','--solve-bv-as-int=sum','step.smt2'],capture_output=True,text=True,timeout=60).stdout.strip()
    except subprocess.TimeoutExpired: out='timeout'
    print(W,i,'cvc5-int',out,'%.2f'%(time.time()-t)); sys.stdout.flush()
