import subprocess
from z3 import *
W=32; n=BitVec('n',W)
def q_of(d,m_delta=0,sh_delta=0):
    l=(d-1).bit_length(); m=((((1<<l)-d)<<W)//d+1+m_delta)&((1<<W)-1); sh2=l-1+sh_delta
    t1=Extract(2*W-1,W,ZeroExt(W,BitVecVal(m,W))*ZeroExt(W,n))
    return LShR(t1+LShR(n-t1,1),sh2)
for d,md,sd in ((7,0,0),(7,-1,0),(7,1,0),(641,-1,0),(1000003,-1,0),(10,0,1)):
    s=Solver(); s.add(q_of(d,md,sd)!=UDiv(n,BitVecVal(d,W)))
    open('den.smt2','w').write('(set-logic QF_BV)\n(set-option :produce-models true)\n'+s.to_smt2().replace('bvudiv_i','bvudiv')+'(get-value (n))\n')
    out=subprocess.run(['cvc5','--solve-bv-as-int=sum','den.smt2'],capture_output=True,text=True,timeout=60).stdout.strip().replace('\n',' ')
    print(d,md,sd,out)
