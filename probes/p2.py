import time, sys, subprocess
from z3 import *
a,b=BitVecs('a b',64)
M=BitVecVal(0xffffffff,64)
lo=(a&M)*(b&M)
t7=LShR(b,32)*(a&M)
t9=(b&M)*LShR(a,32)
s32=Extract(31,0,t7)+Extract(31,0,t9)
s32h=Extract(63,32,t7)+Extract(63,32,t9)
v13=Concat(s32h,s32)
v14=v13<<32
r=Concat(Extract(63,32,v14)+Extract(63,32,lo), Extract(31,0,v14)+Extract(31,0,lo))
s=Solver(); s.add(r!=a*b)
open('mul64.smt2','w').write('(set-logic QF_BV)\n'+s.to_smt2())
# 32-bit via pmuludq
x,y=BitVecs('x y',32)
s2=Solver(); s2.add(Extract(31,0,ZeroExt(32,x)*ZeroExt(32,y))!=x*y)
t=time.time(); print('mul32', s2.check(), time.time()-t)
# 8-bit via 16-bit mullo: even/odd
p,q=BitVecs('p q',16)  # two bytes each
# typical: lo = mullo(a,b)&0xff ; hi = mullo(a>>8,b>>8)<<8
lo8=(p*q)&0xff; hi8=(LShR(p,8)*LShR(q,8))<<8
res=lo8|hi8
s3=Solver(); s3.add(res!=Concat(Extract(15,8,p)*Extract(15,8,q),Extract(7,0,p)*Extract(7,0,q)))
t=time.time(); print('mul8', s3.check(), time.time()-t)
