import time
from z3 import *
F=Float32()
v=BitVec('v',32); rm=Const('rm',RNE().sort())
v1=v & ~LShR(v,1)
f=fpAdd(rm,fpToFP(rm,v1,F),FPVal(0.5,F))
bits=fpToIEEEBV(f)
e=LShR(bits,23)
lo=Extract(15,0,e); hi=Extract(31,16,e)
def usubsat(a,b): return If(UGE(a,b),a-b,BitVecVal(0,16))
res=Concat(usubsat(BitVecVal(0,16),hi),usubsat(BitVecVal(158,16),lo))
def clz(x,W=32):
    r=BitVecVal(W,W)
    for i in range(W): r=If(Extract(i,i,x)==1,BitVecVal(W-1-i,W),r)
    return r
s=Solver(); s.add(rm!=RNA()); s.add(res!=clz(v))
t=time.time(); r=s.check(); print('clz sse2',r,'%.2f'%(time.time()-t))
if r==sat: m=s.model(); print(hex(m[v].as_long()),m[rm],m.eval(res),m.eval(clz(v)))
