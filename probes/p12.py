import time, sys
from z3 import *
D=Float64()
xb=BitVec('xb',64); x=fpBVToFP(xb,D)
rm=Const('rm',RNE().sort())
def cvttsd2si64(f):
    inr=And(Not(fpIsNaN(f)), fpLT(f,FPVal(9223372036854775808.0,D)), fpGEQ(f,FPVal(-9223372036854775808.0,D)))
    return If(inr, fpToSBV(RTZ(),f,BitVecSort(64)), BitVecVal(1<<63,64))
absx=fpBVToFP(xb&0x7fffffffffffffff,D)
big=fpLEQ(FPVal(4503599627370496.0,D),absx); uno=fpIsNaN(absx)
c=cvttsd2si64(x); cf=fpToFP(rm,c,D)
lt=fpLT(cf,x)
add=fpAdd(rm,cf,If(lt,FPVal(1.0,D),FPVal(0.0,D)))
res=If(Or(uno,big),x,add)
spec=fpRoundToIntegral(RTP(),x)
s=Solver(); s.set('timeout',600000); s.add(rm!=RNA())
s.add(Not(Or(And(fpIsNaN(res),fpIsNaN(spec)), fpEQ(res,spec))))
t=time.time(); r=s.check(); print('ceil64 sse2',r,'%.2f'%(time.time()-t))
if r==sat: m=s.model(); print(hex(m[xb].as_long()),m[rm],m.eval(res),m.eval(spec))
