import time, sys
from z3 import *
F=Float32(); WF=FPSort(11,24)
xb=BitVec('xb',32); e=BitVec('e',32); x=fpBVToFP(xb,F)
rm=RNE()
def smax(a,b): return If(a>b,a,b)
def smin(a,b): return If(a<b,a,b)
v5=LShR(xb,23)&255
v6=1-v5; v7=254-v5
v10=smax(v6,e); v12=smin(v10,v7)
v13=e-v12
v14=v12>>1
f17=fpBVToFP((v14<<23)+1065353216,F)
v18=v12-v14
f21=fpBVToFP((v18<<23)+1065353216,F)
v25=smin(smax(v13,BitVecVal(-126,32)),BitVecVal(126,32))
f28=fpBVToFP((v25<<23)+1065353216,F)
res=fpMul(rm,fpMul(rm,fpMul(rm,f17,x),f21),f28)
# spec: x*2^e single rounding. clamp e to [-400,400]
ec=smin(smax(e,BitVecVal(-400,32)),BitVecVal(400,32))
# 2^ec in WF: build from bits: exponent field = ec+1023, mantissa 0  (11 exp bits, 23 mant bits) total 35 bits
expf=Extract(10,0,ec+1023)
two=fpBVToFP(Concat(BitVecVal(0,1),expf,BitVecVal(0,23)),WF)
wide=fpMul(RNE(),fpFPToFP(RNE(),x,WF),two)   # exact
spec=fpFPToFP(rm,wide,F)
s=Solver(); s.set('timeout',int(sys.argv[1])*1000)
cls=sys.argv[2]
if cls=='normal': s.add(v5!=0, v5!=255)
if cls=='finite': s.add(v5!=255)
if cls=='sub': s.add(v5==0)
s.add(Not(Or(And(fpIsNaN(res),fpIsNaN(spec)), fpEQ(res,spec))))
t=time.time(); r=s.check(); print('ldexp sse2',cls,r,'%.2f'%(time.time()-t))
if r==sat:
    m=s.model(); print(hex(m[xb].as_long()), m[e].as_signed_long(), m.eval(res), m.eval(spec))
if cls.startswith('safe'):
    s=Solver(); s.set('timeout',int(sys.argv[1])*1000)
    K=int(cls[4:])
    s.add(v5>=127-K, v5<=127+K, e>=-K, e<=K)
    s.add(Not(Or(And(fpIsNaN(res),fpIsNaN(spec)), fpEQ(res,spec))))
    t=time.time(); r=s.check(); print('ldexp sse2',cls,r,'%.2f'%(time.time()-t))
    if r==sat:
        m=s.model(); print(hex(m[xb].as_long()), m[e].as_signed_long(), m.eval(res), m.eval(spec))
