#include <avel/Avel.hpp>
#include <cstdio>
#include <cmath>
#include <csignal>
#include <csetjmp>
using namespace avel;
static sigjmp_buf jb; static void h(int){ siglongjmp(jb,1); }
int main(){
  signal(SIGFPE,h);
#if defined(AVEL_SSE2)
  { vec2x64i a{std::int64_t(0)}, b{std::int64_t(0x80000000ll)}; printf("C02 0<0x80000000 (i64): %d (expect 1)\n", (int)extract<0>(a<b)); }
  { mask4x32u m{true}; auto r=insert<1>(m,false); printf("C03 insert<1>(all-true,false) lane1=%d (expect 0)\n",(int)extract<1>(r)); }
  { vec4x32u n{100u}; Denominator<vec4x32u> d{Denominator<std::uint32_t>{10u}}; printf("C15 100/denom4x32u(denom32u(10)) = %u (expect 10)\n", extract<0>(n/d)); }
  { float nn=-std::nanf(""); printf("C13 signbit(-nan) lane=%d (expect 1)\n",(int)extract<0>(signbit(vec4x32f{nn}))); }
  { vec4x32i e; auto r=frexp(vec4x32f{-0.0f},&e); printf("C12 frexp(-0.0f)=%a exp=%d (expect -0x0p+0, 0)\n",extract<0>(r),extract<0>(e)); }
#endif
  { vec1x32f a{6.0f}, b{3.0f}; printf("C10 vec1x32f 6/3 = %g (expect 2)\n", decay(a/b)); }
  { printf("C06 scalar bit_ceil(0u)=%u (expect 1)\n", avel::bit_ceil(std::uint32_t(0))); }
  if(!sigsetjmp(jb,1)){ Denominator<std::int64_t> d{-1}; printf("C14 7/Denom64i(-1) = %ld (expect -7)\n",(long)(std::int64_t(7)/d)); } else printf("C14 Denominator<int64_t>(-1): SIGFPE\n");
}
