#!/usr/bin/env python3
# Throw-away feasibility spike: parse clang-14 textual IR, execute symbolically over z3.
import re, sys, time
from z3 import *

# ---------------- types ----------------
class Ty:
    def __init__(s, kind, bits=0, n=0, elem=None): s.kind, s.bits, s.n, s.elem = kind, bits, n, elem
    def __repr__(s):
        if s.kind=='int': return 'i%d'%s.bits
        if s.kind=='fp': return {32:'float',64:'double'}[s.bits]
        if s.kind=='vec': return '<%d x %r>'%(s.n,s.elem)
        if s.kind=='ptr': return 'ptr'
        return s.kind
    def lanes(s): return s.n if s.kind=='vec' else 1
    def scal(s): return s.elem if s.kind=='vec' else s
    def lbits(s):
        t=s.scal(); return 64 if t.kind=='ptr' else t.bits

def parse_type(tok):
    """tok: token list; returns (Ty, rest)"""
    t=tok[0]
    if t=='<':
        n=int(tok[1]); assert tok[2]=='x'
        e,rest=parse_type(tok[3:]); assert rest[0]=='>'
        ty=Ty('vec',n=n,elem=e); rest=rest[1:]
    elif re.fullmatch(r'i\d+',t): ty=Ty('int',int(t[1:])); rest=tok[1:]
    elif t=='float': ty=Ty('fp',32); rest=tok[1:]
    elif t=='double': ty=Ty('fp',64); rest=tok[1:]
    elif t=='void': ty=Ty('void'); rest=tok[1:]
    elif t=='{':   # struct: skip
        depth=1;i=1
        while depth: depth+= (tok[i]=='{')-(tok[i]=='}'); i+=1
        ty=Ty('struct'); rest=tok[i:]
    else: raise Exception('type? %r'%tok[:4])
    while rest and rest[0]=='*': ty=Ty('ptr'); rest=rest[1:]
    return ty,rest

TOK=re.compile(r'\s*(<|>|\(|\)|\[|\]|\{|\}|,|=|\*|![A-Za-z0-9_.]+|[%@][-A-Za-z0-9_.$"]+|-?\d+\.\d+e[+-]\d+|0x[0-9A-Fa-f]+|-?\d+|[A-Za-z_][A-Za-z0-9_.]*|"[^"]*"|\.\.\.)')
def tokenize(s):
    out=[];i=0
    while i<len(s):
        m=TOK.match(s,i)
        if not m:
            if s[i:].strip()=='' : break
            raise Exception('tok? %r'%s[i:i+30])
        out.append(m.group(1)); i=m.end()
    return out

# -------------- values: list of (bv, poisonBool) --------------
def BV(v,b): return BitVecVal(v & ((1<<b)-1), b)
F=BoolVal(False); T=BoolVal(True)

class Fn: pass
def parse_module(text):
    fns={}; cur=None
    import re as _re
    text=_re.sub(r'\[\n((?:\s+i\d+ .*\n)*)\s*\]', lambda m:'[ '+' '.join(x.strip() for x in m.group(1).split('\n'))+' ]', text)
    for line in text.split('\n'):
        line=line.split(' ;')[0] if not line.lstrip().startswith(';') else ''
        if line.startswith('define'):
            m=re.search(r'@([\w.$]+)\((.*)\)\s*(local_unnamed_addr|unnamed_addr|#|\{)',line)
            cur=Fn(); cur.name=m.group(1); cur.blocks={}; cur.order=[]; cur.args=[]
            rettok=tokenize(line[:line.index('@')]);
            # find type after linkage words
            k=0
            while rettok[k] in ('define','dso_local','linkonce_odr','internal','noundef','hidden','weak_odr','zeroext','signext'): k+=1
            cur.ret,_=parse_type(rettok[k:])
            atok=tokenize(m.group(2))
            while atok:
                ty,atok=parse_type(atok)
                while atok and not atok[0].startswith('%'):
                    if atok[0]=='(' :
                        while atok[0]!=')': atok=atok[1:]
                    atok=atok[1:]
                cur.args.append((atok[0],ty)); atok=atok[1:]
                if atok and atok[0]==',': atok=atok[1:]
            fns[cur.name]=cur; lab=str(len(cur.args)); cur.blocks[lab]=[]; cur.order.append(lab); cur.curlab=lab
        elif cur is not None:
            if line.startswith('}'): cur=None; continue
            m=re.match(r'^([\w.]+):',line)
            if m: cur.curlab=m.group(1); cur.blocks[cur.curlab]=[]; cur.order.append(cur.curlab); continue
            if line.strip():
                l=re.sub(r'\s#\d+(?=\s*(,|$))','',line.strip()); l=re.sub(r',\s*![\w.]+ !\d+','',l); l=re.sub(r',\s*align \d+\s*$','',l)
                cur.blocks[cur.curlab].append(l)
    return fns

class Exec:
    def __init__(s, fns): s.fns=fns; s.paths=[]
    def const(s, ty, tok):
        """parse a constant/operand of type ty from tok list -> (value(list of (bv,poison)), rest)"""
        t=tok[0]
        if t.startswith('%'): return s.env[t], tok[1:]
        if ty.kind=='vec':
            if t=='zeroinitializer': return [(BV(0,ty.lbits()),F)]*ty.n, tok[1:]
            if t in('undef','poison'): return [(BV(0,ty.lbits()),T)]*ty.n, tok[1:]
            assert t=='<',tok[:5]
            tok=tok[1:]; out=[]
            for i in range(ty.n):
                ety,tok=parse_type(tok); v,tok=s.const(ety,tok); out+=v
                if tok[0]==',': tok=tok[1:]
            assert tok[0]=='>'; return out,tok[1:]
        if t in('undef','poison'): return [(BV(0,ty.lbits()),T)], tok[1:]
        if ty.kind=='int':
            if t=='true': return [(BV(1,1),F)],tok[1:]
            if t=='false': return [(BV(0,1),F)],tok[1:]
            return [(BV(int(t),ty.bits),F)], tok[1:]
        if ty.kind=='fp':
            import struct
            if t.startswith('0x'): d=struct.unpack('>d',bytes.fromhex(t[2:].rjust(16,'0')))[0]
            else: d=float(t)
            if ty.bits==32: bits=struct.unpack('<I',struct.pack('<f',d))[0]
            else: bits=struct.unpack('<Q',struct.pack('<d',d))[0]
            return [(BV(bits,ty.bits),F)],tok[1:]
        if ty.kind=='ptr':
            if t=='null': return [(BV(0,64),F)],tok[1:]
        raise Exception('const? %r %r'%(ty,tok[:4]))
    def typed(s,tok):
        ty,tok=parse_type(tok)
        while tok[0] in ('noundef','nocapture','readonly','nonnull','immarg','align'): tok=tok[2:] if tok[0]=='align' else tok[1:]
        v,tok=s.const(ty,tok); return ty,v,tok

    def run(s, fname, args, hooks):
        fn=s.fns[fname]; s.hooks=hooks
        s.env={a:v for (a,_),v in zip(fn.args,args)}
        return s.run_block(fn, fn.order[0], None, [], s.env)

    def run_block(s, fn, lab, pred, pc, env):
        """returns list of (pathcond list, retval)"""
        s.env=env
        res=[]
        insts=fn.blocks[lab]
        for line in insts:
            tok=tokenize(line)
            if len(tok)>1 and tok[1]=='=': dst=tok[0]; tok=tok[2:]
            else: dst=None
            op=tok[0]; tok=tok[1:]
            while tok and tok[0] in ('nuw','nsw','exact','fast','nnan','ninf','nsz','inbounds','tail','notail','noundef'):
                if tok[0] in('nuw','nsw','exact'): op+=' '+tok[0]
                tok=tok[1:]
            r=s.step(fn,lab,pred,pc,env,op,tok,line)
            if isinstance(r,tuple) and r[0]=='term': return r[1]
            if dst: env[dst]=r
        raise Exception('fell off block')

    def step(s,fn,lab,pred,pc,env,op,tok,line):
        base=op.split()[0]; flags=op.split()[1:]
        if base in ('add','sub','mul','and','or','xor','shl','lshr','ashr','udiv','urem','sdiv','srem'):
            ty,a,tok=s.typed(tok); assert tok[0]==','; b,tok=s.const(ty,tok[1:])
            out=[]; w=ty.lbits()
            for (x,px),(y,py) in zip(a,b):
                p=Or(px,py)
                if base=='add':
                    r=x+y
                    if 'nsw' in flags: p=Or(p,Not(BVAddNoOverflow(x,y,True)),Not(BVAddNoUnderflow(x,y)))
                    if 'nuw' in flags: p=Or(p,Not(BVAddNoOverflow(x,y,False)))
                elif base=='sub':
                    r=x-y
                    if 'nsw' in flags: p=Or(p,Not(BVSubNoOverflow(x,y)),Not(BVSubNoUnderflow(x,y,True)))
                    if 'nuw' in flags: p=Or(p,Not(BVSubNoUnderflow(x,y,False)))
                elif base=='mul':
                    r=x*y
                    if 'nsw' in flags: p=Or(p,Not(BVMulNoOverflow(x,y,True)),Not(BVMulNoUnderflow(x,y)))
                    if 'nuw' in flags: p=Or(p,Not(BVMulNoOverflow(x,y,False)))
                elif base=='and': r=x&y
                elif base=='or': r=x|y
                elif base=='xor': r=x^y
                elif base in('shl','lshr','ashr'):
                    r={'shl':lambda:x<<y,'lshr':lambda:LShR(x,y),'ashr':lambda:x>>y}[base]()
                    p=Or(p,UGE(y,w))
                    if base=='shl' and 'nuw' in flags: p=Or(p, LShR(x<<y,y)!=x)
                    if base=='shl' and 'nsw' in flags: p=Or(p, ((x<<y)>>y)!=x)
                elif base=='udiv': r=UDiv(x,y)
                elif base=='urem': r=URem(x,y)
                elif base=='sdiv': r=x/y
                elif base=='srem': r=SRem(x,y)
                else: raise Exception(base)
                out.append((r,simplify(p)))
            return out
        if base=='icmp':
            pred_=tok[0]; ty,a,tok=s.typed(tok[1:]); b,tok=s.const(ty,tok[1:])
            f={'eq':lambda x,y:x==y,'ne':lambda x,y:x!=y,'ugt':UGT,'uge':UGE,'ult':ULT,'ule':ULE,'sgt':lambda x,y:x>y,'sge':lambda x,y:x>=y,'slt':lambda x,y:x<y,'sle':lambda x,y:x<=y}[pred_]
            return [(If(f(x,y),BV(1,1),BV(0,1)),Or(px,py)) for (x,px),(y,py) in zip(a,b)]
        if base in('zext','sext','trunc','bitcast'):
            ty,a,tok=s.typed(tok); assert tok[0]=='to'; ty2,_=parse_type(tok[1:])
            if base=='bitcast':
                if ty2.kind=='ptr': return a
                # concat little endian
                tot=Concat(*[x for x,_ in reversed(a)]) if len(a)>1 else a[0][0]
                pa=[p for _,p in a]
                w2=ty2.lbits(); w1=ty.lbits(); n2=ty2.lanes()
                out=[]
                for i in range(n2):
                    lo=i*w2; hi=lo+w2-1
                    # poison: any source lane overlapping
                    ps=[pa[j] for j in range(len(a)) if not (j*w1+w1-1<lo or j*w1>hi)]
                    out.append((simplify(Extract(hi,lo,tot)), simplify(Or(ps)) if len(ps)>1 else ps[0]))
                return out
            w2=ty2.lbits(); w1=ty.lbits()
            if base=='zext': return [(ZeroExt(w2-w1,x),p) for x,p in a]
            if base=='sext': return [(SignExt(w2-w1,x),p) for x,p in a]
            return [(Extract(w2-1,0,x),p) for x,p in a]
        if base=='select':
            tyc,c,tok=s.typed(tok); ty,a,tok=s.typed(tok[1:]); ty2,b,tok=s.typed(tok[1:])
            if len(c)==1 and len(a)>1: c=c*len(a)
            return [(If(cc==1,x,y), Or(pc_, If(cc==1,px,py))) for (cc,pc_),(x,px),(y,py) in zip(c,a,b)]
        if base=='shufflevector':
            ty,a,tok=s.typed(tok); ty2,b,tok=s.typed(tok[1:]); tym,tok=parse_type(tok[1:])
            both=a+b; out=[]
            assert tok[0]=='<' or tok[0] in('zeroinitializer','undef','poison')
            if tok[0]=='zeroinitializer': idx=[0]*tym.n
            else:
                idx=[];tok=tok[1:]
                for i in range(tym.n):
                    ety,tok=parse_type(tok)
                    idx.append(None if tok[0] in('undef','poison') else int(tok[0])); tok=tok[1:]
                    if tok[0]==',': tok=tok[1:]
            for i in idx: out.append((BV(0,ty.lbits()),T) if i is None else both[i])
            return out
        if base=='insertelement':
            ty,a,tok=s.typed(tok); ety,e,tok=s.typed(tok[1:]); ity,i,tok=s.typed(tok[1:])
            k=simplify(i[0][0]).as_long(); a=list(a); a[k]=e[0]; return a
        if base=='extractelement':
            ty,a,tok=s.typed(tok); ity,i,tok=s.typed(tok[1:]); k=simplify(i[0][0]).as_long(); return [a[k]]
        if base=='call':
            rty,tok=parse_type(tok); callee=tok[0][1:]; assert tok[1]=='('; tok=tok[2:]; args=[]
            while tok[0]!=')':
                ty,v,tok=s.typed(tok); args.append((ty,v))
                if tok[0]==',': tok=tok[1:]
            return s.hooks(s,callee,rty,args)
        if base=='ret':
            if tok[0]=='void': return ('term',[(pc,None)])
            ty,v,tok=s.typed(tok); return ('term',[(pc,v)])
        if base=='phi':
            ty,tok=parse_type(tok)
            while tok:
                assert tok[0]=='['; j=1; depth=0
                while not (tok[j]==']' and depth==0):
                    depth+=(tok[j]=='<')-(tok[j]=='>'); j+=1
                l=tok[j-1][1:]
                if l==pred:
                    v,_=s.const(ty,tok[1:]); return v
                tok=tok[j+1:]
                if tok and tok[0]==',': tok=tok[1:]
            raise Exception('phi pred')
        if base=='br':
            if tok[0]=='label': return ('term', s.run_block(fn,tok[1][1:],lab,pc,env))
            ty,c,tok=s.typed(tok); l1=tok[2][1:]; l2=tok[5][1:]
            cv=simplify(c[0][0])
            if is_bv_value(cv): return ('term', s.run_block(fn,l1 if cv.as_long() else l2,lab,pc,env))
            out=[]
            for cond,l in ((cv==1,l1),(cv==0,l2)):
                sv=Solver(); sv.add(pc+[cond])
                if sv.check()!=unsat: out+=s.run_block(fn,l,lab,pc+[cond],dict(env))
            return ('term',out)
        if base=='switch':
            ty,c,tok=s.typed(tok); assert tok[0]==',' and tok[1]=='label'; dflt=tok[2][1:]; tok=tok[4:]
            cases=[]
            while tok[0]!=']':
                ty2,v,tok=s.typed(tok); cases.append((v[0][0],tok[2][1:])); tok=tok[3:]
            out=[]; cv=c[0][0]; neg=[]
            for v,l in cases:
                out+=s.run_block(fn,l,lab,pc+[cv==v],dict(env)); neg.append(cv!=v)
            out+=s.run_block(fn,dflt,lab,pc+neg,dict(env))
            return ('term',out)
        if base=='getelementptr':
            ty,tok=parse_type(tok); pty,p,tok=s.typed(tok[1:]); ity,i,tok=s.typed(tok[1:])
            sz=ty.lbits()//8*ty.lanes()
            return [(p[0][0]+SignExt(64-ity.bits,i[0][0])*sz if ity.bits<64 else p[0][0]+i[0][0]*sz, Or(p[0][1],i[0][1]))]
        if base=='load':
            ty,tok=parse_type(tok); pty,p,tok=s.typed(tok[1:])
            return s.hooks(s,'__load',ty,[(pty,p)])
        raise Exception('unhandled op %s in %s'%(op,line))

# ---------------- intrinsic hooks ----------------
class Mem:
    def __init__(s): s.arr=Array('mem',BitVecSort(64),BitVecSort(8)); s.log=[]
def mkhooks(mem):
    def hooks(ex,callee,rty,args):
        if callee=='__load':
            p=args[0][1][0][0]; nb=rty.lbits()//8*rty.lanes(); mem.log.append(('R',p,nb))
            by=[Select(mem.arr,p+k) for k in range(nb)]
            w=rty.lbits()//8
            return [(Concat(*reversed(by[i*w:(i+1)*w])) if w>1 else by[i*w],F) for i in range(rty.lanes())]
        m=re.match(r'llvm\.x86\.sse2\.(psll|psrl|psra)\.([wdq])',callee)
        if m:
            a=args[0][1]; c=args[1][1]; w=args[0][0].lbits()
            cnt=Concat(*[x for x,_ in reversed(c)]); cnt64=Extract(63,0,cnt)
            pc_=Or([p for _,p in c][: (64//w) or 1])
            out=[]
            for x,px in a:
                sh=Extract(w-1,0,cnt64) if w<64 else cnt64
                big=UGE(cnt64,w)
                if m.group(1)=='psll': r=If(big,BV(0,w),x<<sh)
                elif m.group(1)=='psrl': r=If(big,BV(0,w),LShR(x,sh))
                else: r=If(big,x>>(w-1),x>>sh)
                out.append((r,Or(px,pc_)))
            return out
        m=re.match(r'llvm\.usub\.sat',callee)
        if m: return [(If(UGE(x,y),x-y,BV(0,x.size())),Or(px,py)) for (x,px),(y,py) in zip(args[0][1],args[1][1])]
        raise Exception('no model for '+callee)
    return hooks

# ---------------- demo ----------------
if __name__=='__main__':
    text=open(sys.argv[1]).read(); fns=parse_module(text)
    def sym(name,n,w): return [(BitVec('%s%d'%(name,i),w),F) for i in range(n)]
    def lanes32(v2x64):  # regroup 2x64 -> 4x32
        tot=Concat(v2x64[1][0],v2x64[0][0]); return [simplify(Extract(32*i+31,32*i,tot)) for i in range(4)]
    def check(name, fn, args, spec, assume=[]):
        t=time.time(); mem=Mem(); ex=Exec(fns); paths=ex.run(fn,args,mkhooks(mem)); t1=time.time()-t
        worst='unsat'; nq=0; cex=None
        for pc,ret in paths:
            outs=spec(ret,mem)
            for lane,(got,pois,exp) in enumerate(outs):
                s=Solver(); s.set('timeout',60000); s.add(assume+pc); s.add(Or(pois, got!=exp)); nq+=1
                r=s.check()
                if r!=unsat: worst=str(r); cex=(lane,s.model() if r==sat else None); break
        print('%-10s paths=%d queries=%d exec=%.2fs total=%.2fs -> %s'%(name,len(paths),nq,t1,time.time()-t,worst), cex if cex else '')
    a=sym('a',2,64); b=sym('b',2,64); A=lanes32(a); B=lanes32(b)
    def spec4(f): return lambda ret,mem:[(g,ret[i//2][1],f(A[i],B[i])) for i,g in enumerate(lanes32(ret))]
    check('add','w_add',[a,b],spec4(lambda x,y:x+y)); check('add-vs-wrong-oracle','w_add',[a,b],spec4(lambda x,y:x-y))
    check('mul','w_mul',[a,b],spec4(lambda x,y:x*y))
    check('lt','w_lt',[a,b],spec4(lambda x,y:If(ULT(x,y),BV(-1,32),BV(0,32))))
    check('shlv','w_shlv',[a,b],spec4(lambda x,y:If(UGE(y,32),BV(0,32),x<<y)),assume=[ULE(y,32) for y in B])
    def popc(x):
        r=BV(0,32)
        for i in range(32): r=r+ZeroExt(31,Extract(i,i,x))
        return r
    check('popcnt','w_popcnt',[a],spec4(lambda x,y:popc(x)))
    s_=[(BitVec('s',64),F)]
    check('shl','w_shl',[a,s_],spec4(lambda x,y:If(UGE(s_[0][0],32),BV(0,32),x<<Extract(31,0,s_[0][0]))),assume=[ULE(s_[0][0],32)])
    p=[(BitVec('p',64),F)]; n=[(BitVec('n',32),F)]
    def loadspec(ret,mem):
        outs=[]
        for i,g in enumerate(lanes32(ret)):
            word=Concat(*[Select(mem.arr,p[0][0]+4*i+k) for k in (3,2,1,0)])
            outs.append((g,ret[i//2][1],If(UGT(n[0][0],i),word,BV(0,32))))
        return outs
    check('load','w_load',[p,n],loadspec)
    def divspec(ret,mem): return [(g,ret[i//2][1],UDiv(A[i],B[i])) for i,g in enumerate(lanes32(ret))][:1]
    if len(sys.argv)>2: check('div(x<2^6)','w_div',[a,b],divspec,assume=[B[i]!=0 for i in range(4)]+[ULT(A[i],64) for i in range(4)])
