import time, sys, subprocess
from z3 import *
def denom_u(W,n,d_c):
    l=W-(W - (d_c-1).bit_length()) if d_c>1 else 0   # 32 - clz(d-1)
    l=(d_c-1).bit_length()
    m=((((1<<l)-d_c)<<W)//d_c+1) & ((1<<W)-1)
    sh2=(l-1) & ((1<<W)-1)
    t1=Extract(2*W-1,W,ZeroExt(W,BitVecVal(m,W))*ZeroExt(W,n))
    q=LShR(t1+LShR(n-t1,1), sh2)
    return q
W=int(sys.argv[1])
n=BitVec('n',W)
ds=[3,7,10,641,(1<<(W-1))-1,(1<<(W-1))+1,(1<<W)-1,(1<<(W//2))+1, 1000003 % (1<<W) or 5]
for d in ds:
    q=denom_u(W,n,d)
    s=Solver(); s.set('timeout',3000); s.add(q!=UDiv(n,BitVecVal(d,W)))
    t=time.time(); r=s.check(); tz=time.time()-t
    open('den.smt2','w').write('(set-logic QF_BV)\n'+s.to_smt2().replace('bvudiv_i','bvudiv'))
    t=time.time()
    try: out=subprocess.run(['cvc5','--solve-bv-as-int=sum','den.smt2'],capture_output=True,text=True,timeout=30).stdout.strip()
    except subprocess.TimeoutExpired: out='timeout'
    print(W,d,'z3',r,'%.2f'%tz,'cvc5-int',out,'%.2f'%(time.time()-t)); sys.stdout.flush()
