#!/usr/bin/env python3
# Round-0 probe: generate float-vector wrappers (non-AVX-512 configurations: masks are lane masks).
import sys
T=[('vec4x32f','__m128','__m128i','vec4x32i','mask4x32f'),('vec2x64f','__m128d','__m128i','vec2x64i','mask2x64f'),
   ('vec8x32f','__m256','__m256i','vec8x32i','mask8x32f'),('vec4x64f','__m256d','__m256i','vec4x64i','mask4x64f')]
maxw=sys.argv[1] if len(sys.argv)>1 else '256'
if maxw=='128': T=T[:2]
o=['#include <avel/Avel.hpp>\nusing namespace avel;\n#define W extern "C" __attribute__((noinline))\n']
for t,P,PI,I,M in T:
    for n,op in (('add','+'),('sub','-'),('mul','*'),('div','/')):
        o.append(f'W {P} w_{t}_{n}({P} a,{P} b){{return decay({t}{{a}} {op} {t}{{b}});}}')
    for n,op in (('eq','=='),('ne','!='),('lt','<'),('le','<='),('gt','>'),('ge','>=')):
        o.append(f'W {P} w_{t}_{n}({P} a,{P} b){{return decay({t}{{a}} {op} {t}{{b}});}}')
    o.append(f'W {P} w_{t}_neg({P} a){{return decay(-{t}{{a}});}}')
    for f in ('sqrt','ceil','floor','trunc','round','nearbyint','rint','abs','neg_abs','frac','logb'):
        o.append(f'W {P} w_{t}_{f}({P} a){{return decay({f}({t}{{a}}));}}')
    for f in ('fmax','fmin','fdim','copysign','min','max'):
        o.append(f'W {P} w_{t}_{f}({P} a,{P} b){{return decay({f}({t}{{a}},{t}{{b}}));}}')
    for f in ('isgreater','isgreaterequal','isless','islessequal','islessgreater','isunordered'):
        o.append(f'W {P} w_{t}_{f}({P} a,{P} b){{return decay({f}({t}{{a}},{t}{{b}}));}}')
    for f in ('isnan','isinf','isfinite','isnormal','signbit'):
        o.append(f'W {P} w_{t}_{f}({P} a){{return decay({f}({t}{{a}}));}}')
    o.append(f'W {PI} w_{t}_fpclassify({P} a){{return decay(fpclassify({t}{{a}}));}}')
    o.append(f'W {PI} w_{t}_ilogb({P} a){{return decay(ilogb({t}{{a}}));}}')
    o.append(f'W {P} w_{t}_ldexp({P} a,{PI} e){{return decay(ldexp({t}{{a}},{I}{{e}}));}}')
    o.append(f'W {P} w_{t}_scalbn({P} a,{PI} e){{return decay(scalbn({t}{{a}},{I}{{e}}));}}')
    o.append(f'W {P} w_{t}_frexp({P} a,{PI}* e){{ {I} ee; auto r=frexp({t}{{a}},&ee); *e=decay(ee); return decay(r);}}')
    o.append(f'W {P} w_{t}_blend({P} m,{P} a,{P} b){{return decay(blend({M}{{m}},{t}{{a}},{t}{{b}}));}}')
    o.append(f'W {P} w_{t}_negate({P} m,{P} a){{return decay(negate({M}{{m}},{t}{{a}}));}}')
print('\n'.join(o))
