import time, sys, subprocess
from z3 import *
def longdiv(x,y,W):
    q=BitVecVal(0,W)
    for i in range(W-1,-1,-1):
        b=UGE(LShR(x,i),y)
        x=x-If(b,y<<i,BitVecVal(0,W))
        q=q|(If(b,BitVecVal(1,W),BitVecVal(0,W))<<i)
    return q,x
def cnf(s_assert, fn):
    g=Goal(); g.add(s_assert)
    t=Then('simplify','bit-blast','tseitin-cnf')
    r=t(g)[0]
    open(fn,'w').write(r.dimacs())
W=int(sys.argv[1]); mode=sys.argv[2]; B=int(sys.argv[3])
x,y=BitVecs('x y',W)
q,r=longdiv(x,y,W)
cons=[y!=0]
if mode=='smally': cons.append(ULT(y,1<<B))
if mode=='smallq': cons.append(ULT(LShR(x,B),y))
if mode=='bigy': cons.append(UGE(y,1<<B))
neg=Or(ZeroExt(W,q)*ZeroExt(W,y)+ZeroExt(W,r)!=ZeroExt(W,x), UGE(r,y))
cnf(And(And(cons),neg),'d_%s_%s_%s.cnf'%(W,mode,B))
t=time.time()
try:
    out=subprocess.run(['kissat','-q','d_%s_%s_%s.cnf'%(W,mode,B)],capture_output=True,text=True,timeout=int(sys.argv[4])).stdout.strip().split('\n')[0]
except subprocess.TimeoutExpired: out='timeout'
print(W,mode,B,'kissat',out,'%.2f'%(time.time()-t))
