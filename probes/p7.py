import time, sys
from z3 import *
F=Float32()
xb=BitVec('xb',32); x=fpBVToFP(xb,F)
def cvttps2dq(f):
    # returns 0x80000000 for NaN / out of range
    inr=And(Not(fpIsNaN(f)), fpLT(f,FPVal(2147483648.0,F)), fpGEQ(f,FPVal(-2147483648.0,F)))
    return If(inr, fpToSBV(RTZ(),f,BitVecSort(32)), BitVecVal(0x80000000,32))
rm=Const('rm',RNE().sort())   # dynamic rounding mode for sitofp / fadd
absx=fpBVToFP(xb&0x7fffffff,F)
big=fpGEQ(absx,FPVal(8388608.0,F))
uno=fpIsNaN(absx)
c=cvttps2dq(x)
cf=fpToFP(rm,c,F)   # sitofp
lt=fpLT(cf,x)
add=fpAdd(rm,If(lt,FPVal(1.0,F),FPVal(0.0,F)),cf)
res=If(Or(uno,big),x,add)
spec=fpRoundToIntegral(RTP(),x)
s=Solver(); s.set('timeout',300000)
# compare: bitwise equal or both NaN
neq=And(Not(And(fpIsNaN(res),fpIsNaN(spec))), fpToIEEEBV(res)!=fpToIEEEBV(spec))
s.add(neq)
t=time.time(); r=s.check(); print('ceil sse2 bitexact',r,'%.2f'%(time.time()-t))
if r==sat:
    m=s.model(); print(m, hex(m[xb].as_long()), m.eval(res), m.eval(spec))
s=Solver(); s.set('timeout',300000)
s.add(Not(fpIsNaN(x)), Not(res==spec))  # IEEE equality ignoring sign of zero? use fpEQ
t=time.time(); r=s.check(); print('ceil sse2 struct-eq',r,'%.2f'%(time.time()-t))
if r==sat:
    m=s.model(); print(hex(m[xb].as_long()), m.eval(res), m.eval(spec), m[rm])
for fixed in (None,):
    s=Solver(); s.set('timeout',600000)
    s.add(rm!=RNA())
    s.add(Not(Or(And(fpIsNaN(res),fpIsNaN(spec)), fpEQ(res,spec))))
    t=time.time(); r=s.check(); print('ceil sse2 numeric-eq all rm',r,'%.2f'%(time.time()-t))
    if r==sat:
        m=s.model(); print(hex(m[xb].as_long()), m.eval(res), m.eval(spec), m[rm])
