import time, sys, subprocess
from z3 import *
W=int(sys.argv[1])
n,d=BitVecs('n d',W)
def clz(x):
    r=BitVecVal(W,W)
    for i in range(W): r=If(Extract(i,i,x)==1,BitVecVal(W-1-i,W),r)
    return r
l=W-clz(d-1)
lz=ZeroExt(W,l)
m2=UDiv((((BitVecVal(1,2*W)<<lz)-ZeroExt(W,d))<<W), ZeroExt(W,d))+1
m=Extract(W-1,0,m2)
sh2=l-1
t1=Extract(2*W-1,W,ZeroExt(W,m)*ZeroExt(W,n))
q=LShR(t1+LShR(n-t1,1),sh2)
s=Solver(); s.set('timeout',int(sys.argv[2])*1000)
s.add(UGT(d,1)); s.add(q!=UDiv(n,d))
t=time.time(); r=s.check(); print(W,'z3',r,'%.2f'%(time.time()-t)); sys.stdout.flush()
open('den%d.smt2'%W,'w').write('(set-logic QF_BV)\n'+s.to_smt2().replace('bvudiv_i','bvudiv'))
g=Goal(); g.add(s.assertions()); open('den%d.cnf'%W,'w').write(Then('simplify','bit-blast','tseitin-cnf')(g)[0].dimacs())
t=time.time()
try: out=subprocess.run(['kissat','-q','den%d.cnf'%W],capture_output=True,text=True,timeout=int(sys.argv[2])).stdout.strip().split('\n')[0]
except subprocess.TimeoutExpired: out='timeout'
print(W,'kissat',out,'%.2f'%(time.time()-t))
