#include <avel/Avel.hpp>
using namespace avel;
#define W extern "C" __attribute__((noinline))
W std::uint32_t m_count(__mmask8 a){ return count(mask4x32u{a}); }
W bool m_any(__mmask8 a){ return any(mask4x32u{a}); }
W bool m_eq(__mmask8 a, __mmask8 b){ return mask4x32u{a}==mask4x32u{b}; }
W __mmask8 m_not(__mmask8 a){ return decay(!mask4x32u{a}); }
W __mmask8 m_ins(__mmask8 a, bool b){ return decay(insert<2>(mask4x32u{a},b)); }
W __mmask8 m_arr(const arr4xb* p){ return decay(mask4x32u{*p}); }
W __m128i m_vec(__mmask8 a){ return decay(vec4x32u{mask4x32u{a}}); }
W __mmask8 v_mask(__m128i a){ return decay(mask4x32u(vec4x32u{a})); }
W __mmask64 m64_not(__mmask64 a){ return decay(!mask64x8u{a}); }
W std::uint32_t m64_count(__mmask64 a){ return count(mask64x8u{a}); }
W __m512i v_blend(__mmask64 m, __m512i a, __m512i b){ return decay(blend(mask64x8u{m}, vec64x8u{a}, vec64x8u{b})); }
W __m512i v_mul8(__m512i a, __m512i b){ return decay(vec64x8u{a}*vec64x8u{b}); }
W __m512i v_shr8(__m512i a, __m512i b){ return decay(vec64x8i{a}>>vec64x8i{b}); }
W __m512i v_pop8(__m512i a){ return decay(popcount(vec64x8u{a})); }
W __m512i v_bitceil8(__m512i a){ return decay(bit_ceil(vec64x8u{a})); }
W __m128 f_frexp(__m128 a, __m128i* e){ vec4x32i ee; auto r=frexp(vec4x32f{a},&ee); *e=decay(ee); return decay(r);}
W __m128i f_cls(__m128 a){ return decay(fpclassify(vec4x32f{a})); }
W __mmask8 f_signbit(__m128 a){ return decay(signbit(vec4x32f{a})); }
W __m128 f_fmax(__m128 a,__m128 b){ return decay(fmax(vec4x32f{a},vec4x32f{b})); }
W __m128i f_ilogb(__m128 a){ return decay(ilogb(vec4x32f{a})); }
