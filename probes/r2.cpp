#include <avel/Avel.hpp>
#include <sys/mman.h>
#include <csignal>
#include <csetjmp>
#include <cstdio>
#include <cstring>
using namespace avel;
static sigjmp_buf jb;
static void h(int){ siglongjmp(jb,1); }
int main(){
  signal(SIGSEGV,h); signal(SIGBUS,h);
  char* base=(char*)mmap(0,3*4096,PROT_READ|PROT_WRITE,MAP_PRIVATE|MAP_ANONYMOUS,-1,0);
  mprotect(base,4096,PROT_NONE); mprotect(base+2*4096,4096,PROT_NONE);
  char* lo=base+4096; char* hi=base+2*4096;
  for(unsigned n=0;n<=5;n++){
    unsigned m=n>4?4:n;
    // buffer flush against high guard page
    std::uint32_t* p=(std::uint32_t*)(hi-4*m);
    vec4x32u v{arr4x32u{1,2,3,4}};
    if(!sigsetjmp(jb,1)){ store(p,v,n); printf("store n=%u end-flush ok\n",n);} else printf("store n=%u end-flush FAULT\n",n);
    if(!sigsetjmp(jb,1)){ auto r=load<vec4x32u>(p,n); printf("load n=%u end-flush ok %u\n",n,extract<0>(r));} else printf("load n=%u end-flush FAULT\n",n);
    // buffer starting at low guard boundary (start-flush): p=lo
    p=(std::uint32_t*)lo;
    if(!sigsetjmp(jb,1)){ store(p,v,n); printf("store n=%u start-flush ok\n",n);} else printf("store n=%u start-flush FAULT\n",n);
  }
}
