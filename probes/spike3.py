#!/usr/bin/env python3
# Throw-away spike #3: float vector API (non-AVX-512 configs) through the spike interpreter with z3 FP.
import re, sys, time, os, json, multiprocessing as mp, collections
from z3 import *
import spike, spike2
from spike import BV, F, T, Ty, parse_type, tokenize
from spike2 import Unsupported, ORp, regroup

RM=Const('rm',RNE().sort())
RMC=[RM!=RNA()]
def fsort(w): return Float32() if w==32 else Float64()
def tofp(x): return fpBVToFP(x,fsort(x.size()))
NANCTR=[0]
def frombits(f,w):
    # NaN results: fresh quiet NaN with free sign/payload
    NANCTR[0]+=1
    nan=BitVec('nan%d'%NANCTR[0],w)
    EXTRA.append(And(fpIsNaN(fpBVToFP(nan,fsort(w))), Extract(w-(9 if w==32 else 12)-1+0, w-(9 if w==32 else 12)-1, nan)==1))
    return If(fpIsNaN(f),nan,fpToIEEEBV(f))
EXTRA=[]
MXCSR={}
def rm_bits():  # MXCSR.RC encoding
    return If(RM==RNE(),BV(0,2),If(RM==RTN(),BV(1,2),If(RM==RTP(),BV(2,2),BV(3,2))))

def cvt2int(f,wout,trunc,signed=True):
    w=wout
    lim=FPVal(float(2**(w-1)),f.sort())
    r=fpRoundToIntegral(RTZ() if trunc else RM,f)
    inr=And(Not(fpIsNaN(f)),fpLT(r,lim),fpGEQ(r,-lim))
    return If(inr,fpToSBV(RTZ(),r,BitVecSort(w)),BV(1<<(w-1),w))

FCMP={'oeq':lambda a,b:fpEQ(a,b),'one':lambda a,b:And(Not(fpIsNaN(a)),Not(fpIsNaN(b)),Not(fpEQ(a,b))),'olt':fpLT,'ole':fpLEQ,'ogt':fpGT,'oge':fpGEQ,
 'ord':lambda a,b:And(Not(fpIsNaN(a)),Not(fpIsNaN(b))),'uno':lambda a,b:Or(fpIsNaN(a),fpIsNaN(b)),
 'ueq':lambda a,b:Or(fpIsNaN(a),fpIsNaN(b),fpEQ(a,b)),'une':lambda a,b:Not(fpEQ(a,b)),
 'ult':lambda a,b:Not(fpGEQ(a,b)),'ule':lambda a,b:Not(fpGT(a,b)),'ugt':lambda a,b:Not(fpLEQ(a,b)),'uge':lambda a,b:Not(fpLT(a,b))}

_prev_step=spike.Exec.step   # spike2's patched step
_base_step=spike2._orig_step
def step(s,fn,lab,pred,pc,env,op,tok,line):
    base=op.split()[0]
    if base in('fadd','fsub','fmul','fdiv'):
        ty,a,tok=s.typed(tok); b,tok=s.const(ty,tok[1:]); w=ty.lbits()
        f={'fadd':fpAdd,'fsub':fpSub,'fmul':fpMul,'fdiv':fpDiv}[base]
        return [(frombits(f(RM,tofp(x),tofp(y)),w),ORp(px,py)) for (x,px),(y,py) in zip(a,b)]
    if base=='fneg':
        ty,a,tok=s.typed(tok); w=ty.lbits(); return [(x^BV(1<<(w-1),w),p) for x,p in a]
    if base=='fcmp':
        pr=tok[0]; ty,a,tok=s.typed(tok[1:]); b,tok=s.const(ty,tok[1:])
        return [(If(FCMP[pr](tofp(x),tofp(y)),BV(1,1),BV(0,1)),ORp(px,py)) for (x,px),(y,py) in zip(a,b)]
    if base in('sitofp','uitofp'):
        ty,a,tok=s.typed(tok); ty2,_=parse_type(tok[1:]); w2=ty2.lbits()
        out=[]
        for x,p in a:
            xx=x if base=='sitofp' else ZeroExt(1,x)
            out.append((fpToIEEEBV(fpToFP(RM,xx,fsort(w2))),p))
        return out
    if base in('fpext','fptrunc'):
        ty,a,tok=s.typed(tok); ty2,_=parse_type(tok[1:]); w2=ty2.lbits()
        return [(frombits(fpFPToFP(RM,tofp(x),fsort(w2)),w2),p) for x,p in a]
    if base in('fptosi','fptoui'):
        raise Unsupported(base)
    if base=='store':
        ty,v,tok=s.typed(tok); pty,p,tok=s.typed(tok[1:])
        s.stores=getattr(s,'stores',[])+[(p[0][0],ty,v,list(pc))]; return None
    if base=='alloca':
        s.nalloca=getattr(s,'nalloca',0)+1; return [(BV(0x7fff00000000+s.nalloca*0x1000,64),F)]
    if base=='load':
        ty,tok2=parse_type(tok); pty,p,tok3=s.typed(tok2[1:])
        # load from alloca previously stored by stmxcsr etc.
        addr=simplify(p[0][0])
        if is_bv_value(addr) and addr.as_long() in MXCSR: return [(MXCSR[addr.as_long()],F)]
        raise Unsupported('load')
    if base=='unreachable':
        return ('term',[])   # spike: drop path (real engine: UB obligation 'path infeasible')
    if base=='freeze':
        ty,a,tok=s.typed(tok); return [(x,F) for x,p in a]
    return spike2.step(s,fn,lab,pred,pc,env,op,tok,line)
spike.Exec.step=step

def hooks(ex,callee,rty,args):
    A=[a for _,a in args]; TY=[t for t,_ in args]
    if callee.startswith('llvm.lifetime') or callee.startswith('llvm.experimental.noalias'): return None
    if callee=='llvm.x86.sse.stmxcsr':
        addr=simplify(A[0][0][0]).as_long(); MXCSR[addr]=Concat(BitVec('mxcsr_hi',17),rm_bits(),BitVec('mxcsr_lo',13)); return None
    if callee=='llvm.x86.sse.ldmxcsr':
        addr=simplify(A[0][0][0]).as_long()
        ex.mxcsr_written=getattr(ex,'mxcsr_written',[])+[MXCSR.get(addr)]; return None
    m=re.match(r'llvm\.(fabs|sqrt|floor|ceil|trunc|rint|nearbyint|round|copysign)\.',callee)
    if m:
        k=m.group(1); w=TY[0].lbits()
        if k=='fabs': return [(x&BV((1<<(w-1))-1,w),p) for x,p in A[0]]
        if k=='copysign': return [((x&BV((1<<(w-1))-1,w))|(y&BV(1<<(w-1),w)),ORp(px,py)) for (x,px),(y,py) in zip(*A)]
        if k=='sqrt': return [(frombits(fpSqrt(RM,tofp(x)),w),p) for x,p in A[0]]
        mode={'floor':RTN(),'ceil':RTP(),'trunc':RTZ(),'round':RNA(),'rint':RM,'nearbyint':RM}[k]
        return [(frombits(fpRoundToIntegral(mode,tofp(x)),w),p) for x,p in A[0]]
    m=re.search(r'\.(cvttps2dq|cvtps2dq|cvtt\.ps2dq|cvt\.ps2dq)',callee)
    if m:
        tr='cvtt' in m.group(1)
        return [(cvt2int(tofp(x),32,tr),p) for x,p in A[0]]
    m=re.search(r'sse2\.(cvttsd2si64|cvtsd2si64)$',callee)
    if m:
        x,p=A[0][0]; return [(cvt2int(tofp(x),64,'cvtt' in m.group(1)),p)]
    m=re.search(r'\.(min|max)\.(ps|pd)',callee)
    if m:
        out=[]; w=TY[0].lbits()
        for (x,px),(y,py) in zip(*A):
            a=tofp(x); b=tofp(y)
            c=fpLT(a,b) if m.group(1)=='min' else fpGT(a,b)
            out.append((If(c,x,y),ORp(px,py)))   # x86: returns second operand unless strict compare holds
        return out
    m=re.search(r'\.round\.(ps|pd)',callee)
    if m:
        imm=simplify(A[1][0][0]).as_long(); w=TY[0].lbits()
        mode=RM if imm&4 else [RNE(),RTN(),RTP(),RTZ()][imm&3]
        return [(frombits(fpRoundToIntegral(mode,tofp(x)),w),p) for x,p in A[0]]
    m=re.search(r'(pblendvb|blendvps|blendvpd|blendv\.ps|blendv\.pd)',callee)
    if m:
        a,b,c=A; w=TY[0].lbits()
        return [(If(Extract(w-1,w-1,z)==1,y,x),ORp(px,py,pz)) for (x,px),(y,py),(z,pz) in zip(a,b,c)]
    if 'phadd.d' in callee:
        a,b=A; src=a+b; return [(src[2*i][0]+src[2*i+1][0],ORp(src[2*i][1],src[2*i+1][1])) for i in range(len(a))]
    return spike2.hooks(ex,callee,rty,args)

# ---------------- oracles ----------------
def isnanb(x): return fpIsNaN(tofp(x))
def eqnum(g,e):  # NaN<->NaN else numeric equality
    return Or(And(isnanb(g),isnanb(e)),And(Not(isnanb(g)),Not(isnanb(e)),fpEQ(tofp(g),tofp(e))))
def eqbits_or_nan(g,e): return Or(And(isnanb(g),isnanb(e)),g==e)
def tobits(f): return fpToIEEEBV(f)
def allones(c,w): return If(c,BV(-1,w),BV(0,w))

def float_oracles(w):
    S=fsort(w); EB=8 if w==32 else 11; MB=w-1-EB; BIAS=(1<<(EB-1))-1
    sign=BV(1<<(w-1),w); absm=BV((1<<(w-1))-1,w)
    O={}
    def ar(f): return (2,lambda x,y:tobits(f(RM,tofp(x),tofp(y))),eqbits_or_nan,None)
    O['add']=ar(fpAdd);O['sub']=ar(fpSub);O['mul']=ar(fpMul);O['div']=ar(fpDiv)
    O['sqrt']=(1,lambda x:tobits(fpSqrt(RM,tofp(x))),eqbits_or_nan,None)
    O['neg']=(1,lambda x:x^sign,eqbits_or_nan,None)
    O['abs']=(1,lambda x:x&absm,lambda g,e:g==e,None)
    O['neg_abs']=(1,lambda x:x|sign,lambda g,e:g==e,None)
    O['copysign']=(2,lambda x,y:(x&absm)|(y&sign),lambda g,e:g==e,None)
    for k,f in (('eq',fpEQ),('ne',lambda a,b:Not(fpEQ(a,b))),('lt',fpLT),('le',fpLEQ),('gt',fpGT),('ge',fpGEQ),
                ('isgreater',fpGT),('isgreaterequal',fpGEQ),('isless',fpLT),('islessequal',fpLEQ),
                ('islessgreater',lambda a,b:Or(fpLT(a,b),fpGT(a,b))),('isunordered',lambda a,b:Or(fpIsNaN(a),fpIsNaN(b)))):
        O[k]=(2,(lambda f:lambda x,y:allones(f(tofp(x),tofp(y)),w))(f),lambda g,e:g==e,None)
    for k,f in (('isnan',fpIsNaN),('isinf',fpIsInf),('isfinite',lambda a:Not(Or(fpIsNaN(a),fpIsInf(a)))),('isnormal',fpIsNormal)):
        O[k]=(1,(lambda f:lambda x:allones(f(tofp(x)),w))(f),lambda g,e:g==e,None)
    O['signbit']=(1,lambda x:allones(Extract(w-1,w-1,x)==1,w),lambda g,e:g==e,None)
    for k,mode in (('ceil',RTP()),('floor',RTN()),('trunc',RTZ()),('round',RNA()),('nearbyint',RM),('rint',RM)):
        O[k]=(1,(lambda mode:lambda x:tobits(fpRoundToIntegral(mode,tofp(x))))(mode),eqnum,None)
    O['fmax']=(2,lambda x,y:If(isnanb(x),y,If(isnanb(y),x,If(fpLT(tofp(x),tofp(y)),y,x))),eqnum,None)
    O['fmin']=(2,lambda x,y:If(isnanb(x),y,If(isnanb(y),x,If(fpLT(tofp(y),tofp(x)),y,x))),eqnum,None)
    nonnan2=lambda x,y:[Not(isnanb(x)),Not(isnanb(y))]
    O['max']=(2,lambda x,y:If(fpLT(tofp(x),tofp(y)),y,x),eqnum,nonnan2)
    O['min']=(2,lambda x,y:If(fpLT(tofp(y),tofp(x)),y,x),eqnum,nonnan2)
    O['fdim']=(2,lambda x,y:If(Or(isnanb(x),isnanb(y)),BV((((1<<EB)-1)<<MB)|(1<<(MB-1)),w),If(fpGT(tofp(x),tofp(y)),tobits(fpSub(RM,tofp(x),tofp(y))),BV(0,w))),eqnum,lambda x,y:[Not(And(fpIsInf(tofp(x)),fpIsInf(tofp(y)),Extract(w-1,w-1,x)==Extract(w-1,w-1,y)))])
    O['frac']=(1,lambda x:tobits(fpSub(RM,tofp(x),fpRoundToIntegral(RTZ(),tofp(x)))),eqnum,None)
    O['blend']=(3,lambda m,a,b:If(m==BV(-1,w),a,b),lambda g,e:g==e,lambda m,a,b:[Or(m==0,m==BV(-1,w))])
    O['negate']=(2,lambda m,a:If(m==BV(-1,w),a^sign,a),lambda g,e:g==e,lambda m,a:[Or(m==0,m==BV(-1,w))])
    # glibc FP_ constants
    FPN,FPI,FPZ,FPS,FPNORM=0,1,2,3,4
    O['fpclassify']=(1,lambda x:If(isnanb(x),BV(FPN,w),If(fpIsInf(tofp(x)),BV(FPI,w),If(fpIsZero(tofp(x)),BV(FPZ,w),If(fpIsSubnormal(tofp(x)),BV(FPS,w),BV(FPNORM,w))))),lambda g,e:g==e,None)
    # exponent helpers
    def ilog(x):
        a=x&absm; ef=LShR(a,MB); mant=a&BV((1<<MB)-1,w)
        # subnormal: position of leading one
        lz=BV(MB,w)
        for i in range(MB): lz=If(Extract(i,i,mant)==1,BV(MB-1-i,w),lz)   # leading zeros within mantissa field
        return If(ef==0, BV(-BIAS,w)-lz, ef-BIAS)   # for subnormal: -(BIAS-1) - (lz+1)
    O['ilogb']=(1,lambda x:If(isnanb(x),BV(-2**31,w) if w==32 else SignExt(32,BV(-2**31,32)),If(fpIsInf(tofp(x)),BV(2**31-1,w),If(fpIsZero(tofp(x)),BV(-2**31,w) if w==32 else SignExt(32,BV(-2**31,32)),ilog(x)))),lambda g,e:g==e,None)
    O['logb']=(1,lambda x:If(isnanb(x),x,If(fpIsInf(tofp(x)),BV(((1<<EB)-1)<<MB,w),If(fpIsZero(tofp(x)),BV((1<<(w-1))|(((1<<EB)-1)<<MB),w),tobits(fpToFP(RNE(),ilog(x),S))))),eqnum,None)
    # ldexp/scalbn: exact product in wide format, single rounding (RNE only)
    WS=FPSort(EB+4,MB+1)
    def ldexp(x,e):
        e32=Extract(31,0,e); lim=4*BIAS
        ec=If(e32>lim,BV(lim,32),If(e32<-lim,BV(-lim,32),e32))
        wb=(1<<(EB+3))-1
        expf=Extract(EB+3,0,ec+wb)
        two=fpBVToFP(Concat(BV(0,1),expf,BV(0,MB)),WS)
        wide=fpMul(RNE(),fpFPToFP(RNE(),tofp(x),WS),two)
        return tobits(fpFPToFP(RNE(),wide,S))
    O['ldexp']=(2,ldexp,eqnum,None); O['scalbn']=(2,ldexp,eqnum,None)
    O['_ldexp_rne']=True
    return O

def do_one(job):
    path,fname,timeout=job
    m=re.match(r'w_vec(\d+)x(\d+)f_(\w+)$',fname); N=int(m.group(1)); B=int(m.group(2)); op=m.group(3)
    O=float_oracles(B)
    if op=='frexp': return frexp_check(fname,N,B,timeout)
    if op not in O: return (fname,'no-oracle',0,0,'')
    nargs,f,cmp_,dom=O[op]
    fn=spike2.FNS[fname]
    del EXTRA[:]; MXCSR.clear(); NANCTR[0]=0
    ins=[[BitVec('%s%d'%('abc'[k],i),B) for i in range(N)] for k in range(nargs)]
    args=[regroup([(x,F) for x in ins[k]],B,aty.lbits()) for k,(an,aty) in enumerate(fn.args)]
    t0=time.time()
    try:
        ex=spike.Exec(spike2.FNS); paths=ex.run(fname,args,hooks)
    except Unsupported as e: return (fname,'unsupported',0,0,str(e))
    except Exception as e: return (fname,'error',0,0,'%s: %s'%(type(e).__name__,str(e)[:100]))
    texec=time.time()-t0
    t1=time.time(); verdict='unsat'; info=''
    rmfix=[RM==RNE()] if op in('ldexp','scalbn') else []
    for i in range(N if os.environ.get('ALL_LANES') else 1):
        s=Solver(); s.set('timeout',timeout*1000); s.add(RMC+rmfix+EXTRA)
        lb=[]
        for pc,ret in paths:
            out=regroup(ret,fn.ret.lbits(),B); g,p=out[i]
            xs=[ins[k][i] for k in range(nargs)]; e=f(*xs); d=dom(*xs) if dom else []
            lb.append(And(*(pc+d+[Or(p,Not(cmp_(g,e)))])))
        s.add(Or(lb)); r=s.check()
        if r!=unsat:
            verdict=str(r)
            if r==sat:
                mdl=s.model(); info='lane%d '%i+' '.join('%s=%s'%(v,hex(mdl.eval(v,model_completion=True).as_long())) for v in [ins[k][i] for k in range(nargs)])+' rm=%s got=%s exp=%s'%(mdl.eval(RM,model_completion=True),hex(mdl.eval(g,model_completion=True).as_long()),hex(mdl.eval(e,model_completion=True).as_long()))
            break
    mx=getattr(ex,'mxcsr_written',None)
    if mx: info+=' [writes MXCSR x%d]'%len(mx)
    return (fname,verdict,round(texec,3),round(time.time()-t1,3),info+' paths=%d'%len(paths))

def frexp_check(fname,N,B,timeout):
    return (fname,'skipped',0,0,'frexp needs out-pointer store model')

def init(path):
    spike2.init(path)

if __name__=='__main__':
    path=sys.argv[1]; timeout=int(sys.argv[2]); pat=sys.argv[3] if len(sys.argv)>3 else '.'
    init(path)
    names=[n for n in spike2.FNS if n.startswith('w_') and re.search(pat,n)]
    with mp.Pool(14,initializer=init,initargs=(path,)) as pool:
        res=pool.map(do_one,[(path,n,timeout) for n in names],chunksize=1)
    c=collections.Counter(r[1] for r in res); print(c)
    json.dump(res,open(sys.argv[4] if len(sys.argv)>4 else 'spike3_results.json','w'),indent=0)
    for r in res:
        if r[1]!='unsat' or 'MXCSR' in r[4]: print(r)
    print('total exec %.1f solve %.1f'%(sum(r[2] for r in res),sum(r[3] for r in res)))
