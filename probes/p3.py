import time, sys
from z3 import *
def longdiv(x,y,W):
    q=BitVecVal(0,W)
    for i in range(W-1,-1,-1):
        b=UGE(LShR(x,i),y)
        x=x-If(b,y<<i,BitVecVal(0,W))
        q=q|(If(b,BitVecVal(1,W),BitVecVal(0,W))<<i)
    return q,x
for W in (8,16,32):
    x,y=BitVecs('x y',W)
    q,r=longdiv(x,y,W)
    for name,neg in (('udiv',Or(q!=UDiv(x,y), r!=URem(x,y))), ('mulchk',Or(ZeroExt(W,q)*ZeroExt(W,y)+ZeroExt(W,r)!=ZeroExt(W,x), UGE(r,y)))):
        s=Solver(); s.set('timeout',120000); s.add(y!=0); s.add(neg)
        t=time.time(); print(W,name,s.check(),'%.2f'%(time.time()-t)); sys.stdout.flush()
        if W==32:
            open('div32_%s.smt2'%name,'w').write('(set-logic QF_BV)\n'+s.to_smt2())
