#include <avel/Avel.hpp>
#include <cstdio>
#include <cmath>
#include <cstring>
using namespace avel;
int main(){
  std::uint32_t xs[]={0x7f03ef27u,0xff67569eu,0x805d3358u};
  int es[]={-253,-255,(int)0x80000000};
  for(int k=0;k<3;k++){
    float x; std::memcpy(&x,&xs[k],4);
    auto r=ldexp(vec4x32f{x}, vec4x32i{es[k]});
    float out=extract<0>(r);
    printf("x=%a e=%d avel=%a std=%a scalar=%a\n",x,es[k],out,std::ldexp(x,es[k]), avel::ldexp(x,es[k]));
  }
}
