#!/usr/bin/env python3
# Round-0 probe: generate the 1908-wrapper integer module used by spike2.py (throw-away).
import sys
types=[('vec16x8u','__m128i'),('vec8x16u','__m128i'),('vec4x32u','__m128i'),('vec2x64u','__m128i'),('vec16x8i','__m128i'),('vec8x16i','__m128i'),('vec4x32i','__m128i'),('vec2x64i','__m128i'),
('vec32x8u','__m256i'),('vec16x16u','__m256i'),('vec8x32u','__m256i'),('vec4x64u','__m256i'),('vec32x8i','__m256i'),('vec16x16i','__m256i'),('vec8x32i','__m256i'),('vec4x64i','__m256i'),
('vec64x8u','__m512i'),('vec32x16u','__m512i'),('vec16x32u','__m512i'),('vec8x64u','__m512i'),('vec64x8i','__m512i'),('vec32x16i','__m512i'),('vec16x32i','__m512i'),('vec8x64i','__m512i')]
maxw=sys.argv[1] if len(sys.argv)>1 else '__m512i'   # '__m128i' | '__m256i' | '__m512i'
order=['__m128i','__m256i','__m512i']; types=[t for t in types if order.index(t[1])<=order.index(maxw)]
bin2=['+','-','*','&','|','^','<<','>>','/','%']
un=['popcount','countl_zero','countr_zero','byteswap']
bf=['min','max','average','midpoint']
out=['#include <avel/Avel.hpp>\nusing namespace avel;\n#define W extern "C" __attribute__((noinline))\n']
for t,p in types:
    for i,o in enumerate(bin2): out.append(f'W {p} w_{t}_b{i}({p} a,{p} b){{return decay({t}{{a}} {o} {t}{{b}});}}')
    for o in bf: out.append(f'W {p} w_{t}_{o}({p} a,{p} b){{return decay({o}({t}{{a}},{t}{{b}}));}}')
    if t.endswith('u'):
        for o in un+['bit_ceil','bit_floor','bit_width']: out.append(f'W {p} w_{t}_{o}({p} a){{return decay({o}({t}{{a}}));}}')
    bits=int(t.split('x')[1][:-1])
    for s in range(0,bits+1):
        out.append(f'W {p} w_{t}_bsl{s}({p} a){{return decay(bit_shift_left<{s}>({t}{{a}}));}}')
        out.append(f'W {p} w_{t}_rotl{s}({p} a){{return decay(rotl<{s}>({t}{{a}}));}}')
print('\n'.join(out))
